"""C05 - basis-function values and arbitrary-order derivatives; agreement of the two back-ends"""
import itertools

import numpy as np

from refs import gauss as G
from refs import harmonics as H
from sx.harness import Case, run_property, shell_spec, make_shell
from . import common as cm

ENCODED = [
    "gbasis.evals._deriv:_eval_deriv_contractions",
    "gbasis.evals._deriv:_eval_first_second_order_deriv_contractions",
    "gbasis.evals._deriv:_first_derivative",
    "gbasis.evals._deriv:_second_derivative",
    "gbasis.evals.eval:Eval.construct_array_contraction",
    "gbasis.evals.eval:evaluate_basis",
    "gbasis.evals.eval_deriv:EvalDeriv.construct_array_contraction",
    "gbasis.evals.eval_deriv:evaluate_deriv_basis",
    "gbasis.base_one:BaseOneIndex.construct_array_cartesian",
    "gbasis.base_one:BaseOneIndex.construct_array_spherical",
    "gbasis.base_one:BaseOneIndex.construct_array_mix",
    "gbasis.base_one:BaseOneIndex.construct_array_lincomb",
]


def _points(mk, I_shell, where, npts=1):
    """symbolic points; 'centre' puts point 0 exactly on the centre, 'plane' on the plane x = A_x, 'axis' on the
    line through the centre parallel to z"""
    A = I_shell["A"]
    pts = []
    for i in range(npts):
        p = [mk.var(f"P{i}{x}") for x in "xyz"]
        if i == 0:
            if where == "centre":
                p = list(A)
            elif where == "plane":
                p[0] = A[0]
            elif where == "axis":
                p[0], p[1] = A[0], A[1]
        pts.append(p)
    return pts


class Kernel(Case):
    """EvalDeriv.construct_array_contraction(shell, points, orders, deriv_type) == n-fold symbolic derivative of
    sum_k c_k N_k x^a y^b z^c exp(-alpha_k r^2), for a list of order triples"""

    prop = "C05"
    canary_scale = "Ae0"
    rtol = 1e-7

    def inputs(self, mk):
        p = self.params
        sh = shell_spec(mk, "A", p["l"], p["K"], p["M"], zeros=p.get("zeros", ()))
        return dict(sh=sh, pts=_points(mk, sh, p.get("where", "general"), p.get("npts", 1)))

    def code(self, I, mk):
        from gbasis.evals.eval_deriv import EvalDeriv

        s = make_shell(mk, I["sh"], normalise=False)
        out = {}
        for o in self.params["orders"]:
            out["D%d%d%d" % tuple(o)] = EvalDeriv.construct_array_contraction(
                s, mk.array(I["pts"]), np.array(o, dtype=int), deriv_type=self.params.get("backend", "general"))
        return out

    def ref(self, I, ops, mk):
        out = {}
        for o in self.params["orders"]:
            vals = [G.eval_shell(ops, I["sh"], pt, o) for pt in I["pts"]]
            # shape (M, L, npts)
            M, L = len(vals[0]), len(vals[0][0])
            arr = np.empty((M, L, len(vals)), dtype=object)
            for ip, v in enumerate(vals):
                for m in range(M):
                    for c in range(L):
                        arr[m, c, ip] = v[m][c]
            out["D%d%d%d" % tuple(o)] = arr
        return out


class Value(Case):
    """Eval.construct_array_contraction == function values (order zero through the dedicated class)"""

    prop = "C05"
    canary_scale = "Ae0"

    def inputs(self, mk):
        p = self.params
        sh = shell_spec(mk, "A", p["l"], p["K"], p["M"])
        return dict(sh=sh, pts=_points(mk, sh, p.get("where", "general"), 1))

    def code(self, I, mk):
        from gbasis.evals.eval import Eval

        return {"V": Eval.construct_array_contraction(make_shell(mk, I["sh"], normalise=False), mk.array(I["pts"]))}

    def ref(self, I, ops, mk):
        v = G.eval_shell(ops, I["sh"], I["pts"][0], (0, 0, 0))
        return {"V": np.array(v, dtype=object)[:, :, None]}


class DirectRejects(Case):
    """a request the 'direct' back-end cannot honour (an order > 2, or an unknown back-end name) must be rejected"""

    prop = "C05"
    canary_scale = None

    def inputs(self, mk):
        p = self.params
        sh = shell_spec(mk, "A", p["l"], 1, 1)
        return dict(sh=sh, pts=_points(mk, sh, "general", 1))

    def code(self, I, mk):
        from gbasis.evals.eval_deriv import EvalDeriv, evaluate_deriv_basis

        s = make_shell(mk, I["sh"], normalise=True)
        via = self.params.get("via", "public")
        pts, o, dt = mk.array(I["pts"]), np.array(self.params["orders"], dtype=int), self.params["backend"]
        n = cm.nfun(self.params["l"], "c")
        if via == "public":
            out = evaluate_deriv_basis([s], pts, o, deriv_type=dt)
        elif via == "transform":
            # the same request with a transformation matrix (identity): a different route into the back-end
            out = evaluate_deriv_basis([s], pts, o, transform=np.identity(n), deriv_type=dt)
        elif via == "spherical":
            s.coord_type = "spherical"
            out = evaluate_deriv_basis([s], pts, o, deriv_type=dt)
        elif via == "class_cart":
            out = EvalDeriv([s]).construct_array_cartesian(points=pts, orders=o, deriv_type=dt)
        elif via == "class_lincomb":
            out = EvalDeriv([s]).construct_array_lincomb(np.identity(n), ["cartesian"], points=pts, orders=o, deriv_type=dt)
        else:
            out = EvalDeriv.construct_array_contraction(s, pts, o, deriv_type=dt)
        return {"D": out}

    def ref(self, I, ops, mk):
        return {"__raises__": "*"}

    conformance = False


class Public(Case):
    """evaluate_deriv_basis / evaluate_basis on a whole basis (normalisation, spherical, mixed, transform)"""

    prop = "C05"
    canary_scale = "Ae0"
    query_timeout = 120000
    rtol = 1e-7

    def inputs(self, mk):
        p = self.params
        specs = cm.specs_from(mk, p)
        pts = [[mk.var(f"P{i}{x}") for x in "xyz"] for i in range(p.get("npts", 1))]
        nfun = sum(cm.nfun(l, t) * M for l, t, M in zip(p["ls"], p["types"], p["Ms"]))
        T = None
        if p.get("nt"):
            T = [[mk.var(f"T{i}_{j}") for j in range(nfun)] for i in range(p["nt"])]
        return dict(specs=specs, pts=pts, T=T)

    def code(self, I, mk):
        from gbasis.evals.eval import evaluate_basis
        from gbasis.evals.eval_deriv import evaluate_deriv_basis

        basis = cm.basis_from(mk, I["specs"], self.params["types"])
        T = mk.array(I["T"]) if I["T"] is not None else None
        o = self.params["orders"]
        out = {"D": evaluate_deriv_basis(basis, mk.array(I["pts"]), np.array(o, dtype=int), transform=T,
                                         deriv_type=self.params.get("backend", "general"))}
        if tuple(o) == (0, 0, 0):
            out["V"] = evaluate_basis(basis, mk.array(I["pts"]), transform=T)
        return out

    def ref(self, I, ops, mk):
        p = self.params
        rows = []
        for s, t in zip(I["specs"], p["types"]):
            per_pt = [G.eval_shell(ops, s, pt, p["orders"], normalise=True) for pt in I["pts"]]
            M, L = len(per_pt[0]), len(per_pt[0][0])
            if t == "s":
                T = H.transformation(ops, s["l"], G.comps(s["l"]), H.default_sph_labels(s["l"]))
                for m in range(M):
                    for r in range(len(T)):
                        rows.append([cm._lin(ops, [(T[r][c], per_pt[ip][m][c]) for c in range(L)]) for ip in range(len(I["pts"]))])
            else:
                for m in range(M):
                    for c in range(L):
                        rows.append([per_pt[ip][m][c] for ip in range(len(I["pts"]))])
        if I["T"] is not None:
            rows = [[cm._lin(ops, [(I["T"][i][j], rows[j][ip]) for j in range(len(rows))]) for ip in range(len(I["pts"]))]
                    for i in range(len(I["T"]))]
        arr = np.array(rows, dtype=object)
        out = {"D": arr}
        if tuple(p["orders"]) == (0, 0, 0):
            out["V"] = arr
        return out


def _chunks(lst, n):
    return [lst[i:i + n] for i in range(0, len(lst), n)]


def cases(tier):
    out = []
    lmax = 4 if tier == "quick" else 6
    omax = 3 if tier == "quick" else 4
    triples = [list(t) for t in itertools.product(range(omax + 1), repeat=3)]
    for l in range(lmax + 1):
        K, M = (2, 2) if l <= 2 else (1, 1)
        for ch in _chunks(triples, 16 if tier == "quick" else 25):
            out.append(Kernel(l=l, K=K, M=M, orders=ch))
    low = [list(t) for t in itertools.product(range(3), repeat=3)]
    for l in range(lmax + 1):
        K, M = (2, 2) if l <= 2 else (1, 1)
        out.append(Kernel(l=l, K=K, M=M, orders=low, backend="direct"))
    # points exactly on the centre / on a coordinate plane / on an axis through the centre
    for where in ("centre", "plane", "axis"):
        for l in (0, 1, 2, 3):
            out.append(Kernel(l=l, K=1, M=1, orders=[[0, 0, 0], [1, 0, 0], [0, 1, 0], [2, 0, 0], [1, 1, 0], [3, 0, 1], [0, 0, 2], [2, 2, 2]], where=where, npts=2))
            out.append(Kernel(l=l, K=1, M=1, orders=[[0, 0, 0], [1, 0, 0], [0, 1, 0], [2, 0, 0], [1, 1, 0], [0, 0, 2], [2, 2, 2], [2, 1, 0]], where=where, npts=2, backend="direct"))
            out.append(Value(l=l, K=2, M=1, where=where))
    for l in range(lmax + 1):
        out.append(Value(l=l, K=2 if l < 3 else 1, M=2 if l < 3 else 1))
    # order 4 along one axis (the highest Hermite polynomial of the property's range) also in the quick tier
    if tier == "quick":
        for l in (0, 1, 2):
            out.append(Kernel(l=l, K=1, M=1, orders=[[4, 0, 0], [0, 4, 0], [0, 0, 4], [4, 1, 0], [2, 0, 4]]))
        # the top of the property's range (h and i shells) also in the quick tier, on a short order list
        for l in (5, 6):
            out.append(Kernel(l=l, K=1, M=1, orders=[[0, 0, 0], [1, 0, 0], [0, 2, 1], [3, 0, 0]]))
            out.append(Kernel(l=l, K=1, M=1, orders=[[0, 0, 0], [0, 1, 0], [1, 0, 2]], backend="direct"))
    # generally contracted shells with exact zeros in the coefficient matrix
    for backend in ("general", "direct"):
        out.append(Kernel(l=1, K=3, M=2, orders=[[0, 0, 0], [1, 0, 0], [0, 2, 1]], zeros=[[0, 1], [2, 0]], backend=backend))
        out.append(Kernel(l=0, K=2, M=2, orders=[[0, 0, 0], [0, 1, 1]], zeros=[[0, 1], [1, 0]], backend=backend))
    for o in ([3, 0, 0], [0, 3, 0], [1, 0, 4], [2, 3, 2]):
        out.append(DirectRejects(l=2, orders=o, backend="direct"))
    out.append(DirectRejects(l=1, orders=[1, 0, 0], backend="Direct"))
    # every route into the back-end rejects the request, not only the plain function call
    for via in ("transform", "spherical", "class_cart", "class_lincomb", "contraction"):
        out.append(DirectRejects(l=1, orders=[0, 3, 1], backend="direct", via=via))
        out.append(DirectRejects(l=1, orders=[0, 1, 1], backend="numeric", via=via))
    out.append(Public(ls=[0, 1], types="cc", Ks=[2, 1], Ms=[1, 2], orders=[0, 0, 0], npts=2))
    out.append(Public(ls=[2, 1], types="sc", Ks=[1, 1], Ms=[1, 1], orders=[1, 0, 1]))
    out.append(Public(ls=[1, 2], types="cs", Ks=[1, 1], Ms=[1, 1], orders=[0, 2, 0], backend="direct"))
    out.append(Public(ls=[1, 2], types="ss", Ks=[1, 1], Ms=[2, 1], orders=[0, 0, 0]))
    out.append(Public(ls=[1, 0], types="cc", Ks=[1, 1], Ms=[1, 1], orders=[1, 1, 0], nt=2))
    out.append(Public(ls=[2, 0], types="sc", Ks=[1, 1], Ms=[1, 1], orders=[0, 0, 0], nt=3))
    if tier == "thorough":
        out.append(Public(ls=[3, 1], types="sc", Ks=[1, 1], Ms=[1, 1], orders=[2, 1, 0]))
        out.append(Public(ls=[2, 2, 0], types="csc", Ks=[1, 2, 1], Ms=[1, 1, 2], orders=[1, 0, 0], npts=2))
        out.append(Public(ls=[4], types="s", Ks=[1], Ms=[1], orders=[0, 1, 1]))
        out.append(Public(ls=[2, 1], types="cs", Ks=[1, 1], Ms=[1, 1], orders=[4, 0, 3]))
        out.append(Public(ls=[1, 1], types="cs", Ks=[2, 1], Ms=[1, 2], orders=[2, 2, 2], backend="direct", nt=7))
    return out


def main(tier="quick", seed=0, only=None):
    cs = cm.parse_only(cases(tier), only)
    bounds = {
        "angular_momenta": "l = 0..4 on every order triple and l = 5, 6 on short order lists (quick) / 0..6 (thorough), every Cartesian component",
        "orders": "every order triple with each order <= 3 (quick: 64) / <= 4 (thorough: 125), enumerated; direct back-end: all 27 triples with orders <= 2",
        "points": "symbolic points (1-2), plus points exactly on the centre, on the plane x = A_x and on the axis through the centre",
        "primitives": "K <= 2", "segments": "M <= 2", "transform": "symbolic rectangular T (2 x n, 3 x n, 7 x n)",
        "outside": "floating-point rounding; more than 2 points (points are independent columns); K > 2",
    }
    assumptions = ["real-number semantics", "scipy comb / perm / eval_hermite replaced by exact integer / recurrence stubs",
                   "exponents > 0, coefficients != 0"]
    return run_property("C05", cs, tier, seed, ENCODED, bounds, assumptions, title="Function values and derivatives, both back-ends.")
