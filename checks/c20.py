"""C20 - overlap screening follows the documented cutoff and is conservative"""
import itertools
import math

import numpy as np

from refs import gauss as G
from sx import core
from sx.core import Rel, And, Or, Not, Implies
from sx.harness import Case, run_property, shell_spec, make_shell
from . import common as cm

ENCODED = [
    "gbasis.integrals.overlap:is_integral_screened",
    "gbasis.integrals.overlap:Overlap.construct_array_contraction",
    "gbasis.integrals.overlap:overlap_integral",
    "gbasis.base_two_symm:BaseTwoIndexSymmetric.construct_array_cartesian",
    "gbasis.base_two_symm:BaseTwoIndexSymmetric.construct_array_spherical",
    "gbasis.base_two_symm:BaseTwoIndexSymmetric.construct_array_mix",
    "gbasis.base_two_symm:BaseTwoIndexSymmetric.construct_array_lincomb",
]


def _tol(mk, name="tol"):
    return mk.var(name, ("in", 0, 1))


def _tolarg(mk, t):
    return mk.symfloat(t) if mk.symbolic else float(t)


def oracle_screened(H, ops, sa, sb, tol):
    """documented rule: |R_AB|^2 > -(a+b)/(a b) ln(tol), a / b the smallest exponent of each shell"""
    ctx = H.ctx
    lt = ops.log(tol)
    R2 = sum(((sb["A"][x] - sa["A"][x]) * (sb["A"][x] - sa["A"][x]) for x in range(3)), ops.zero)
    alts = []
    for i, a in enumerate(sa["exps"]):
        for j, b in enumerate(sb["exps"]):
            amin = [H.formula(a - o, "<=") for k, o in enumerate(sa["exps"]) if k != i]
            bmin = [H.formula(b - o, "<=") for k, o in enumerate(sb["exps"]) if k != j]
            cond = H.formula(R2 + (a + b) / (a * b) * lt, ">")
            alts.append(And(*amin, *bmin, cond))
    return Or(*alts)


def concrete_screened(sa, sb, tol):
    a, b = min(sa["exps"]), min(sb["exps"])
    R2 = sum((sb["A"][x] - sa["A"][x]) ** 2 for x in range(3))
    return R2 > -(a + b) / (a * b) * math.log(tol)


class Cutoff(Case):
    """is_integral_screened(a, b, tol) <=> documented cutoff with the smallest exponents (min = path splits)"""

    prop = "C20"
    conformance = False
    run_canary = False

    def inputs(self, mk):
        p = self.params
        return dict(sa=shell_spec(mk, "A", p["la"], p["Ka"], 1), sb=shell_spec(mk, "B", p["lb"], p["Kb"], 1), tol=_tol(mk))

    def code(self, I, mk):
        from gbasis.integrals.overlap import is_integral_screened

        a = make_shell(mk, I["sa"], normalise=False)
        b = make_shell(mk, I["sb"], normalise=False)
        return {"screened": np.array([1 if is_integral_screened(a, b, _tolarg(mk, I["tol"])) else 0], dtype=object)}

    def path_obligations(self, H, I, ops, mk, out):
        if "__raises__" in out:
            H.fail(("raise", ()), f"raised {out['__raises__']} {out.get('__trace__', '')[-200:]}")
            return
        o = oracle_screened(H, ops, I["sa"], I["sb"], I["tol"])
        got = int(np.asarray(out["screened"]).view(np.ndarray)[0])
        if got:
            H.unsat(("screened", ()), Not(o), "screened although the centre distance does not exceed the documented cutoff")
        else:
            H.unsat(("kept", ()), o, "kept although the centre distance exceeds the documented cutoff")

    def ref_concrete(self, I, ops, mk):
        return {"screened": np.array([1.0 if concrete_screened(I["sa"], I["sb"], I["tol"]) else 0.0])}


class Monotone(Case):
    """lowering the tolerance never removes more blocks: tol' < tol and screened(tol') => screened(tol)
    (uses the instance  tol' < tol => ln tol' < ln tol  of the monotonicity of the logarithm)"""

    prop = "C20"
    conformance = False
    run_canary = False

    def inputs(self, mk):
        p = self.params
        return dict(sa=shell_spec(mk, "A", 0, p["Ka"], 1), sb=shell_spec(mk, "B", 1, p["Kb"], 1), tol=_tol(mk), tol2=_tol(mk, "tol2"))

    def code(self, I, mk):
        from gbasis.integrals.overlap import is_integral_screened

        a = make_shell(mk, I["sa"], normalise=False)
        b = make_shell(mk, I["sb"], normalise=False)
        s1 = 1 if is_integral_screened(a, b, _tolarg(mk, I["tol"])) else 0
        s2 = 1 if is_integral_screened(a, b, _tolarg(mk, I["tol2"])) else 0
        return {"s": np.array([s1, s2], dtype=object)}

    def path_obligations(self, H, I, ops, mk, out):
        if "__raises__" in out:
            H.fail(("raise", ()), f"raised {out['__raises__']}")
            return
        s1, s2 = [int(v) for v in np.asarray(out["s"]).view(np.ndarray)]
        lt, lt2 = ops.log(I["tol"]), ops.log(I["tol2"])
        mono = And(Implies(H.formula(I["tol2"] - I["tol"], "<"), H.formula(lt2 - lt, "<")),
                   Implies(H.formula(I["tol"] - I["tol2"], "<"), H.formula(lt - lt2, "<")))
        if s2 and not s1:
            H.unsat(("mono", (0,)), And(mono, H.formula(I["tol2"] - I["tol"], "<")), "block removed at the lower tolerance but kept at the higher one")
        elif s1 and not s2:
            H.unsat(("mono", (1,)), And(mono, H.formula(I["tol"] - I["tol2"], "<")), "block removed at the lower tolerance but kept at the higher one")
        else:
            H.ok(("mono", (2,)))

    def ref_concrete(self, I, ops, mk):
        s1 = concrete_screened(I["sa"], I["sb"], I["tol"])
        s2 = concrete_screened(I["sa"], I["sb"], I["tol2"])
        return {"s": np.array([float(s1), float(s2)])}


class Arg(Case):
    """tol_screen=None never screens (any distance); a bool is rejected with TypeError"""

    prop = "C20"
    conformance = False
    run_canary = False

    def inputs(self, mk):
        return dict(sa=shell_spec(mk, "A", 1, 2, 1), sb=shell_spec(mk, "B", 0, 1, 2))

    def code(self, I, mk):
        from gbasis.integrals.overlap import is_integral_screened, Overlap

        a = make_shell(mk, I["sa"], normalise=False)
        b = make_shell(mk, I["sb"], normalise=False)
        arg = {"none": None, "true": True, "false": False}[self.params["arg"]]
        r = is_integral_screened(a, b, arg)
        blk = Overlap.construct_array_contraction(a, b, tol_screen=arg)
        return {"screened": np.array([1 if r else 0], dtype=object), "blk": blk}

    def ref(self, I, ops, mk):
        if self.params["arg"] != "none":
            return {"__raises__": "TypeError"}
        from gbasis.integrals.overlap import Overlap

        a = make_shell(mk, I["sa"], normalise=False)
        b = make_shell(mk, I["sb"], normalise=False)
        return {"screened": np.array([0], dtype=object), "blk": Overlap.construct_array_contraction(a, b)}


class NoTol(Case):
    """no tolerance means no screening: overlap_integral(basis) with its default arguments is the unscreened
    assembly, exactly (a zeroed block counts however small its true entries are)"""

    prop = "C20"
    canary_scale = "Ae0"
    query_timeout = 60000

    def inputs(self, mk):
        p = self.params
        return dict(specs=[shell_spec(mk, "ABCD"[i], l, K, M) for i, (l, K, M) in enumerate(zip(p["ls"], p["Ks"], p["Ms"]))])

    def code(self, I, mk):
        from gbasis.integrals.overlap import overlap_integral

        return {"S": overlap_integral(cm.basis_from(mk, I["specs"], self.params["types"]))}

    def ref(self, I, ops, mk):
        from gbasis.integrals.overlap import Overlap

        basis = cm.basis_from(mk, I["specs"], self.params["types"])
        ov = Overlap(basis)
        t = self.params["types"]
        if set(t) == {"c"}:
            return {"S": ov.construct_array_cartesian(tol_screen=None)}
        if set(t) == {"s"}:
            return {"S": ov.construct_array_spherical(tol_screen=None)}
        return {"S": ov.construct_array_mix([cm.LETTER[x] for x in t], tol_screen=None)}

    def replay_compare(self, label, idx, a, b):
        return a != b


class Matrix(Case):
    """overlap_integral(basis, tol_screen=tol [, transform]) == unscreened matrix with exactly the blocks beyond the
    documented cutoff set to zero (zeros of the block's shape), through cartesian / spherical / mixed / lincomb assembly"""

    prop = "C20"
    conformance = False
    run_canary = False
    query_timeout = 60000
    rtol = 1e-8

    def inputs(self, mk):
        p = self.params
        specs = cm.specs_from(mk, p)
        nf = sum(cm.nfun(l, t) * M for l, t, M in zip(p["ls"], p["types"], p["Ms"]))
        T = [[mk.var(f"T{i}_{j}") for j in range(nf)] for i in range(p["nt"])] if p.get("nt") else None
        return dict(specs=specs, tol=_tol(mk), T=T)

    def code(self, I, mk):
        from gbasis.integrals.overlap import overlap_integral

        basis = cm.basis_from(mk, I["specs"], self.params["types"])
        T = mk.array(I["T"]) if I["T"] is not None else None
        return {"S": overlap_integral(basis, transform=T, tol_screen=_tolarg(mk, I["tol"]))}

    def _expected(self, I, mk, screened):
        """unscreened AO matrix with the screened shell-pair blocks zeroed, then transformed"""
        from gbasis.integrals.overlap import overlap_integral

        p = self.params
        basis = cm.basis_from(mk, I["specs"], p["types"])
        S = np.array(np.asarray(overlap_integral(basis)).view(np.ndarray), dtype=object, copy=True)
        sizes = [cm.nfun(l, t) * M for l, t, M in zip(p["ls"], p["types"], p["Ms"])]
        offs = np.concatenate([[0], np.cumsum(sizes)])
        for (i, j), sc in screened.items():
            if sc:
                S[offs[i]:offs[i + 1], offs[j]:offs[j + 1]] = 0
                S[offs[j]:offs[j + 1], offs[i]:offs[i + 1]] = 0
        if I["T"] is not None:
            T = np.array(I["T"], dtype=object)
            S = np.dot(np.dot(T, S), T.T)
        return S

    def path_obligations(self, H, I, ops, mk, out):
        if "__raises__" in out:
            H.fail(("raise", ()), f"raised {out['__raises__']} {out.get('__trace__', '')[-200:]}")
            return
        ctx = H.ctx
        n = len(I["specs"])
        screened = {}
        for i in range(n):
            for j in range(i + 1, n):
                o = oracle_screened(H, ops, I["specs"][i], I["specs"][j], I["tol"])
                r_yes, _ = ctx.check(Not(o), kind="oracle", timeout=20000)   # unsat => every input on this path is screened
                r_no, _ = ctx.check(o, kind="oracle", timeout=20000)         # unsat => no input on this path is screened
                if r_yes == "unsat" and r_no != "unsat":
                    screened[(i, j)] = True
                elif r_no == "unsat" and r_yes != "unsat":
                    screened[(i, j)] = False
                else:
                    # the code's path does not decide the documented rule for this pair: both outcomes are possible,
                    # so for one of them the code is wrong - find it through the values
                    screened[(i, j)] = None
        S = np.asarray(out["S"]).view(np.ndarray)
        undecided = [k for k, v in screened.items() if v is None]
        if undecided:
            for k in undecided:
                H.fail(("pair", k), "the path taken by the code does not determine the documented screening rule for this shell pair")
            return
        exp = self._expected(I, mk, screened)
        for idx in np.ndindex(*S.shape):
            H.equal(("S", idx), S[idx], exp[idx])

    def ref_concrete(self, I, ops, mk):
        n = len(I["specs"])
        screened = {(i, j): concrete_screened(I["specs"][i], I["specs"][j], I["tol"]) for i in range(n) for j in range(i + 1, n)}
        return {"S": np.array(self._expected(I, mk, screened), dtype=float)}


class Conservative(Case):
    """every removed s-type element is smaller in magnitude than tol times the sums of the normalised absolute
    contraction coefficients (K = 1: the bound is tol).  Uses the instances  L < ln tol => exp(L) < tol  of
    exp-monotonicity together with exp(ln tol) = tol."""

    prop = "C20"
    conformance = False
    run_canary = False
    query_timeout = 60000

    def inputs(self, mk):
        p = self.params
        return dict(sa=shell_spec(mk, "A", 0, p["Ka"], 1), sb=shell_spec(mk, "B", 0, p["Kb"], 1), tol=_tol(mk))

    def code(self, I, mk):
        from gbasis.integrals.overlap import overlap_integral, is_integral_screened

        a = make_shell(mk, I["sa"], normalise=True)
        b = make_shell(mk, I["sb"], normalise=True)
        sc = 1 if is_integral_screened(a, b, _tolarg(mk, I["tol"])) else 0
        S = overlap_integral([a, b])
        bound = None
        return {"screened": np.array([sc], dtype=object), "S01": np.array([S[0, 1]], dtype=object),
                "_shells": (a, b)}

    def path_obligations(self, H, I, ops, mk, out):
        if "__raises__" in out:
            H.fail(("raise", ()), f"raised {out['__raises__']} {out.get('__trace__', '')[-200:]}")
            return
        ctx = H.ctx
        if not int(np.asarray(out["screened"]).view(np.ndarray)[0]):
            H.ok(("kept", ()))
            return
        a, b = out["_shells"]
        tol = I["tol"]
        lt = ops.log(tol)
        # sum_k |d_k|, d_k = c_k * norm_cont = coefficient of the unit-normalised primitive k in the normalised
        # contraction (s-type: one component)
        def abs_sum(sh):
            tot = ops.zero
            nc = np.asarray(sh.norm_cont).view(np.ndarray)
            cf = np.asarray(sh.coeffs).view(np.ndarray)
            for k in range(cf.shape[0]):
                tot = tot + abs(core.lift(ctx, cf[k, 0] * nc[0, 0]))
            return tot
        A, B = abs_sum(a), abs_sum(b)
        S = core.materialise(core.lift(ctx, np.asarray(out["S01"]).view(np.ndarray)[0]))
        # exp-monotonicity instances for every Gaussian factor present
        axioms = []
        for L, E in ctx.atoms.get(("exp", None), []):
            axioms.append(Implies(H.formula(L - lt, "<"), H.formula(E - tol, "<")))
        bound = tol * A * B
        H.unsat(("bound", (0,)), And(*axioms, H.formula(S - bound, ">=")), "removed element not below tol * sum|cN| * sum|cN|")
        H.unsat(("bound", (1,)), And(*axioms, H.formula(S + bound, "<=")), "removed element not above -tol * sum|cN| * sum|cN|")

    def ref_concrete(self, I, ops, mk):
        return {"screened": np.array([float(concrete_screened(I["sa"], I["sb"], I["tol"]))])}


def cases(tier, seed=0):
    out = []
    for Ka, Kb in [(1, 1), (2, 1), (1, 2), (2, 2)] + ([(3, 2), (3, 3)] if tier == "thorough" else []):
        out.append(Cutoff(la=0, lb=1, Ka=Ka, Kb=Kb))
    out.append(Cutoff(la=2, lb=3, Ka=2, Kb=1))
    out.append(Cutoff(la=1, lb=0, Ka=3, Kb=1))
    out.append(Cutoff(la=0, lb=0, Ka=1, Kb=4))
    out.append(Monotone(Ka=1, Kb=1))
    out.append(Monotone(Ka=2, Kb=1))
    for arg in ("none", "true", "false"):
        out.append(Arg(arg=arg))
    out.append(Matrix(ls=[0, 1], types="cc", Ks=[1, 1], Ms=[1, 2]))
    out.append(Matrix(ls=[1, 0], types="sc", Ks=[2, 1], Ms=[1, 1]))
    out.append(Matrix(ls=[1, 1], types="ss", Ks=[1, 1], Ms=[1, 1]))
    out.append(Matrix(ls=[0, 1], types="cc", Ks=[1, 1], Ms=[1, 1], nt=2))
    out.append(Matrix(ls=[0, 0, 1], types="ccc", Ks=[1, 1, 1], Ms=[1, 1, 1]))
    out.append(Conservative(Ka=1, Kb=1))
    out.append(NoTol(ls=[1, 1], types="cc", Ks=[1, 1], Ms=[1, 1]))
    out.append(NoTol(ls=[0, 2], types="cs", Ks=[2, 1], Ms=[1, 1]))
    if tier == "thorough":
        out.append(Matrix(ls=[2, 1], types="sc", Ks=[1, 2], Ms=[2, 1]))
        out.append(Matrix(ls=[1, 0, 2], types="csc", Ks=[1, 1, 1], Ms=[1, 2, 1]))
        out.append(Matrix(ls=[1, 2], types="cs", Ks=[1, 1], Ms=[1, 1], nt=3))
        out.append(Matrix(ls=[0, 0, 0, 1], types="cccc", Ks=[1, 1, 1, 1], Ms=[1, 1, 1, 1]))
        out.append(Conservative(Ka=2, Kb=1))
    return out


def main(tier="quick", seed=0, only=None):
    cs = cm.parse_only(cases(tier, seed), only)
    bounds = {
        "cutoff": "shell pairs with K <= 2 primitives each plus (3,1) and (1,4) (thorough: (3,2), (3,3)) (smallest exponent = path splits over the comparisons of the real min()), "
                  "symbolic centres and exponents, symbolic tolerance in (0, 1); None and bool arguments",
        "matrices": "2-3 shells (4 thorough), cartesian / spherical / mixed / transformed; every feasible combination of screened / kept pairs is a path",
        "conservative": "s-s pairs with K = 1 (K = 2 on one side in thorough)",
        "outside": "tolerances >= 1 (the documented range is below 1); rounding of log / sqrt; K = 4; 5 shells",
    }
    assumptions = ["real-number semantics", "ln(tol) < 0 for 0 < tol < 1; instances of monotonicity of ln and exp and exp(ln tol) = tol (trusted, listed per obligation)",
                   "exponents > 0"]
    return run_property("C20", cs, tier, seed, ENCODED, bounds, assumptions, title="Overlap screening.")
