"""C11 - index symmetries; reordering shells only reorders indices (code vs code, no reference formulas)"""
import itertools

import numpy as np

from refs import gauss as G
from sx.harness import Case, run_property, shell_spec, make_shell
from . import common as cm
from .c09 import _public_call, NIDX

ENCODED = [
    "gbasis.base_two_symm:BaseTwoIndexSymmetric.construct_array_cartesian",
    "gbasis.base_two_symm:BaseTwoIndexSymmetric.construct_array_mix",
    "gbasis.base_four_symm:BaseFourIndexSymmetric.construct_array_cartesian",
    "gbasis.base_four_symm:BaseFourIndexSymmetric.construct_array_mix",
    "gbasis.base_one:BaseOneIndex.construct_array_mix",
    "gbasis.integrals.electron_repulsion:ElectronRepulsionIntegral.construct_array_contraction",
    "gbasis.integrals._two_elec_int:_compute_two_elec_integrals",
    "gbasis.integrals._two_elec_int:_compute_two_elec_integrals_angmom_zero",
    "gbasis.integrals.point_charge:PointChargeIntegral.construct_array_contraction",
    "gbasis.integrals._one_elec_int:_compute_one_elec_integrals",
    "gbasis.integrals.overlap:Overlap.construct_array_contraction",
    "gbasis.integrals.kinetic_energy:KineticEnergyIntegral.construct_array_contraction",
    "gbasis.integrals.moment:Moment.construct_array_contraction",
    "gbasis.integrals.momentum:MomentumIntegral.construct_array_contraction",
    "gbasis.integrals.angular_momentum:AngularMomentumIntegral.construct_array_contraction",
]


def _block(module, a, b, I, mk):
    if module == "overlap":
        from gbasis.integrals.overlap import Overlap
        return Overlap.construct_array_contraction(a, b)
    if module == "kinetic":
        from gbasis.integrals.kinetic_energy import KineticEnergyIntegral
        return KineticEnergyIntegral.construct_array_contraction(a, b)
    if module == "moment":
        from gbasis.integrals.moment import Moment
        return Moment.construct_array_contraction(a, b, mk.array(I["C"]), np.array([[1, 0, 1], [0, 2, 0], [0, 0, 0]], dtype=int))
    if module == "point_charge":
        from gbasis.integrals.point_charge import PointChargeIntegral
        return PointChargeIntegral.construct_array_contraction(a, b, mk.array([I["C"]]), mk.array([I["q"][0]]))
    if module == "momentum":
        from gbasis.integrals.momentum import MomentumIntegral
        return MomentumIntegral.construct_array_contraction(a, b)
    if module == "angmom":
        from gbasis.integrals.angular_momentum import AngularMomentumIntegral
        return AngularMomentumIntegral.construct_array_contraction(a, b)
    raise KeyError(module)


def _conj(arr):
    arr = np.asarray(arr).view(np.ndarray)
    out = np.empty(arr.shape, dtype=object)
    for idx in np.ndindex(*arr.shape):
        v = arr[idx]
        out[idx] = v.conjugate() if hasattr(v, "conjugate") else v
    return out


class BlockSym(Case):
    """block(a, b) == (conjugate) transpose of block(b, a), each orientation computed independently"""

    prop = "C11"
    canary_scale = "Ae0"
    rtol = 1e-7

    def inputs(self, mk):
        p = self.params
        return dict(sa=shell_spec(mk, "A", p["la"], p["Ka"], p["Ma"]), sb=shell_spec(mk, "B", p["lb"], p["Kb"], p["Mb"]),
                    C=[mk.var("C" + x) for x in "xyz"], q=[mk.var("q0")])

    def code(self, I, mk):
        a = make_shell(mk, I["sa"], normalise=False)
        b = make_shell(mk, I["sb"], normalise=False)
        return {"B": _block(self.params["module"], a, b, I, mk)}

    def ref(self, I, ops, mk):
        a = make_shell(mk, I["sa"], normalise=False)
        b = make_shell(mk, I["sb"], normalise=False)
        ba = np.asarray(_block(self.params["module"], b, a, I, mk)).view(np.ndarray)
        perm = (2, 3, 0, 1) + tuple(range(4, ba.ndim))
        t = np.transpose(ba, perm)
        if self.params["module"] in ("momentum", "angmom"):
            t = _conj(t) if mk.symbolic else np.conj(t)
        return {"B": t}


EIGHT = [(0, 1, 2, 3), (1, 0, 2, 3), (0, 1, 3, 2), (1, 0, 3, 2), (2, 3, 0, 1), (3, 2, 0, 1), (2, 3, 1, 0), (3, 2, 1, 0)]


class EriBlockSym(Case):
    """the ERI block has the eight permutational symmetries when every orientation is computed independently"""

    prop = "C11"
    canary_scale = "Ae0"
    rtol = 1e-6
    query_timeout = 120000

    @property
    def concrete(self):
        c = self.params.get("exps")
        if not c:
            return None
        return {f"{t}e{k}": v for t, vs in zip("ABCD", c) for k, v in enumerate(vs)}

    def inputs(self, mk):
        p = self.params
        return dict(specs=[shell_spec(mk, t, p["ls"][i], p["Ks"][i], p["Ms"][i]) for i, t in enumerate("ABCD")])

    def _eri(self, I, mk, perm):
        from gbasis.integrals.electron_repulsion import ElectronRepulsionIntegral

        sh = [make_shell(mk, I["specs"][i], normalise=False) for i in perm]
        blk = np.asarray(ElectronRepulsionIntegral.construct_array_contraction(*sh)).view(np.ndarray)
        # blk axes: (M_p0, L_p0, M_p1, L_p1, ...) -> bring back to the order of shells 0,1,2,3
        inv = [perm.index(i) for i in range(4)]
        axes = []
        for i in inv:
            axes += [2 * i, 2 * i + 1]
        return np.transpose(blk, axes)

    def code(self, I, mk):
        return {f"G{k}": self._eri(I, mk, EIGHT[k]) for k in self.params["which"]}

    def ref(self, I, ops, mk):
        base = self._eri(I, mk, EIGHT[0])
        return {f"G{k}": base for k in self.params["which"]}


class PublicPerm(Case):
    """module(basis listed in another order) == module(basis) with its basis indices permuted accordingly"""

    prop = "C11"
    canary_scale = "Ae0"
    rtol = 1e-7
    query_timeout = 120000

    def inputs(self, mk):
        p = self.params
        specs = cm.specs_from(mk, p)
        return dict(specs=specs, C=[mk.var("C" + x) for x in "xyz"], P=[mk.var("P" + x) for x in "xyz"],
                    q=[mk.var("q0"), mk.var("q1")], T=None)

    def code(self, I, mk):
        p = self.params
        perm = p["perm"]
        specs = [I["specs"][i] for i in perm]
        types = "".join(p["types"][i] for i in perm)
        return {"A": _public_call(p["module"], cm.basis_from(mk, specs, types), I, mk)}

    def ref(self, I, ops, mk):
        p = self.params
        A = np.asarray(_public_call(p["module"], cm.basis_from(mk, I["specs"], p["types"]), I, mk)).view(np.ndarray)
        sizes = [cm.nfun(l, t) * M for l, t, M in zip(p["ls"], p["types"], p["Ms"])]
        offs = np.concatenate([[0], np.cumsum(sizes)])
        index = []
        for i in p["perm"]:
            index += list(range(offs[i], offs[i + 1]))
        for ax in range(NIDX[p["module"]]):
            A = np.take(A, index, axis=ax)
        return {"A": A}


class PublicSym(Case):
    """public arrays: symmetric (real operators) / Hermitian (momentum type) / eight-fold (ERI)"""

    prop = "C11"
    canary_scale = "Ae0"
    rtol = 1e-7
    query_timeout = 120000

    def inputs(self, mk):
        p = self.params
        specs = cm.specs_from(mk, p)
        return dict(specs=specs, C=[mk.var("C" + x) for x in "xyz"], P=[mk.var("P" + x) for x in "xyz"],
                    q=[mk.var("q0"), mk.var("q1")], T=None)

    def _arr(self, I, mk):
        p = self.params
        return np.asarray(_public_call(p["module"], cm.basis_from(mk, I["specs"], p["types"]), I, mk)).view(np.ndarray)

    def code(self, I, mk):
        A = self._arr(I, mk)
        if self.params["module"] == "eri":
            return {f"G{k}": np.transpose(A, EIGHT[k]) for k in range(1, 8)}
        return {"A": A}

    def ref(self, I, ops, mk):
        A = self._arr(I, mk)
        if self.params["module"] == "eri":
            return {f"G{k}": A for k in range(1, 8)}
        t = np.swapaxes(A, 0, 1)
        if self.params["module"] in ("momentum", "angmom"):
            t = _conj(t) if mk.symbolic else np.conj(t)
        return {"A": t}


def _exps(seed, Ks):
    E = cm.EXP_POOL[:6]
    out, j = [], seed
    for K in Ks:
        out.append([str(E[(j + 2 * k) % len(E)]) for k in range(K)])
        j += 1
    return out


def cases(tier, seed=0):
    out = []
    lmax = 2 if tier == "quick" else 3
    for mod in ("overlap", "kinetic", "moment", "point_charge", "momentum", "angmom"):
        for la in range(lmax + 1):
            for lb in range(lmax + 1):
                if la == lb and mod not in ("momentum", "angmom", "point_charge"):
                    continue
                out.append(BlockSym(module=mod, la=la, lb=lb, Ka=1, Kb=1, Ma=1, Mb=1))
        out.append(BlockSym(module=mod, la=1, lb=0, Ka=2, Kb=1, Ma=1, Mb=2))
        out.append(BlockSym(module=mod, la=1, lb=2, Ka=1, Kb=2, Ma=2, Mb=1))
    ones = [1, 1, 1, 1]
    classes = [ls for ls in itertools.product(range(2), repeat=4)]
    for ls in classes:
        if sum(ls) <= 2:
            out.append(EriBlockSym(ls=list(ls), Ks=ones, Ms=ones, which=list(range(1, 8))))
        else:
            out.append(EriBlockSym(ls=list(ls), Ks=ones, Ms=ones, which=list(range(1, 8)), exps=_exps(sum(ls) + seed, ones)))
    out.append(EriBlockSym(ls=[1, 0, 0, 0], Ks=[2, 1, 1, 1], Ms=[1, 2, 1, 1], which=list(range(1, 8))))
    # generalized contractions on every member (column axes must follow the shells through every orientation)
    out.append(EriBlockSym(ls=[0, 0, 0, 0], Ks=ones, Ms=[2, 2, 1, 2], which=list(range(1, 8)), exps=_exps(2 + seed, ones)))
    out.append(EriBlockSym(ls=[0, 1, 1, 0], Ks=ones, Ms=[2, 2, 2, 1], which=[1, 2, 4, 7], exps=_exps(3 + seed, ones)))
    # tight / diffuse pairing (exact arithmetic: orientation independence of the real-number result)
    out.append(EriBlockSym(ls=[0, 2, 0, 1], Ks=ones, Ms=ones, which=list(range(1, 8)), exps=[["100000"], ["1/50"], ["3/2"], ["3/10"]]))
    if tier == "thorough":
        for ls in itertools.product(range(3), repeat=4):
            if max(ls) == 2 and sum(ls) <= 5:
                out.append(EriBlockSym(ls=list(ls), Ks=ones, Ms=ones, which=[1, 4, 7], exps=_exps(sum(ls) + seed, ones)))
        out.append(EriBlockSym(ls=[0, 3, 0, 2], Ks=ones, Ms=ones, which=[3, 4, 6], exps=[["100000"], ["1/5"], ["5"], ["1/50"]]))
    # public level: all permutations of 2-3 shells of differing (l, M, type)
    mods2 = ["overlap", "kinetic", "moment", "momentum", "angmom", "point_charge", "nuclear", "eval", "eval_deriv"]
    three = dict(ls=[1, 0, 2], types="ccs", Ks=[1, 2, 1], Ms=[2, 1, 1])
    for mod in mods2:
        for perm in itertools.permutations(range(3)):
            if perm == (0, 1, 2):
                continue
            if tier == "quick" and mod not in ("overlap", "momentum", "eval") and perm not in ((1, 0, 2), (2, 0, 1)):
                continue
            out.append(PublicPerm(module=mod, perm=list(perm), **three))
        out.append(PublicPerm(module=mod, perm=[1, 0], ls=[2, 1], types="sc", Ks=[1, 1], Ms=[1, 2]))
        if NIDX[mod] == 2:
            out.append(PublicSym(module=mod, **three))
            if mod in ("overlap", "momentum", "angmom") or tier == "thorough":
                # the all-Cartesian and all-spherical assemblies are separate code paths
                out.append(PublicSym(module=mod, ls=[1, 0, 1], types="ccc", Ks=[1, 2, 1], Ms=[2, 1, 1]))
                out.append(PublicSym(module=mod, ls=[1, 2], types="ss", Ks=[1, 1], Ms=[2, 1]))
    for mod in ("eri", "eri_phys"):
        out.append(PublicPerm(module=mod, perm=[1, 0], ls=[1, 0], types="sc", Ks=[1, 1], Ms=[1, 2]))
        out.append(PublicPerm(module=mod, perm=[2, 0, 1], ls=[0, 1, 0], types="ccc", Ks=[1, 1, 1], Ms=[1, 1, 2]))
    out.append(PublicSym(module="eri", ls=[1, 0], types="sc", Ks=[1, 1], Ms=[1, 2]))
    out.append(PublicSym(module="eri", ls=[0, 0], types="cc", Ks=[1, 1], Ms=[2, 2]))
    if tier == "thorough":
        four = dict(ls=[1, 0, 2, 1], types="cscs", Ks=[1, 1, 1, 1], Ms=[1, 2, 1, 1])
        for mod in ("overlap", "momentum", "eval"):
            for perm in itertools.permutations(range(4)):
                if perm != (0, 1, 2, 3):
                    out.append(PublicPerm(module=mod, perm=list(perm), **four))
        out.append(PublicPerm(module="eri", perm=[1, 2, 0], ls=[1, 0, 1], types="scc", Ks=[1, 1, 1], Ms=[1, 1, 1]))
    return out


def main(tier="quick", seed=0, only=None):
    cs = cm.parse_only(cases(tier, seed), only)
    bounds = {
        "blocks": "two-index kernels (overlap, kinetic, moment, point charge, momentum, angular momentum): every ordered (la, lb) <= 2 "
                  "(quick) / <= 3 (thorough), both orientations computed independently, Level A; ERI: all 16 classes with l <= 1 (Level A "
                  "for total L <= 2, Level B otherwise), all eight orientations computed independently; one tight/diffuse quartet; "
                  "thorough: d classes with total L <= 5 (three orientations) and a tight-s/diffuse-f quartet",
        "public": "all permutations of 3 shells of differing (l, M, type) for overlap / momentum / eval and two permutations for the other "
                  "modules (quick); all permutations for every module and all 23 permutations of 4 shells for three modules (thorough)",
        "outside": "orientation-dependent *rounding* (the real-number semantics is what is compared); 5 shells",
    }
    assumptions = ["real-number semantics", "Boys function as uninterpreted atom (same argument => same value)", "exponents > 0"]
    return run_property("C11", cs, tier, seed, ENCODED, bounds, assumptions, title="Index symmetries and shell reordering.")
