"""C07 - multipole moment integrals: exact for every order and origin, order axis, overlap, origin shift"""
import itertools
from math import comb

import numpy as np

from refs import gauss as G
from sx.harness import Case, run_property, shell_spec, make_shell
from . import common as cm

ENCODED = [
    "gbasis.integrals._moment_int:_compute_multipole_moment_integrals_intermediate",
    "gbasis.integrals._moment_int:_cleanup_intermediate_integrals",
    "gbasis.integrals._moment_int:_compute_multipole_moment_integrals",
    "gbasis.integrals.moment:Moment.construct_array_contraction",
    "gbasis.integrals.moment:moment_integral",
    "gbasis.base_two_symm:BaseTwoIndexSymmetric.construct_array_cartesian",
    "gbasis.base_two_symm:BaseTwoIndexSymmetric.construct_array_mix",
]


def _orders(p):
    return [tuple(o) for o in p["orders"]]


class Block(Case):
    """Moment block == closed form with (x-C)^e expanded about P; order triples on the last axis in the given order"""

    prop = "C07"
    canary_scale = "Ae0"

    def inputs(self, mk):
        p = self.params
        return dict(sa=shell_spec(mk, "A", p["la"], p["Ka"], p["Ma"]), sb=shell_spec(mk, "B", p["lb"], p["Kb"], p["Mb"]),
                    C=[mk.var("C" + x) for x in "xyz"])

    def code(self, I, mk):
        from gbasis.integrals.moment import Moment

        a = make_shell(mk, I["sa"], normalise=False)
        b = make_shell(mk, I["sb"], normalise=False)
        out = Moment.construct_array_contraction(a, b, mk.array(I["C"]), np.array(_orders(self.params), dtype=int))
        return {"M": out}

    def ref(self, I, ops, mk):
        res = []
        for o in _orders(self.params):
            res.append(np.array(G.contracted(ops, I["sa"], I["sb"], G.moment_prim(ops, I["sa"]["A"], I["sb"]["A"], I["C"], o)), dtype=object))
        return {"M": np.stack(res, axis=-1)}


class Public(Case):
    """moment_integral(basis) == normalised reference (incl. spherical / mixed)"""

    prop = "C07"
    canary_scale = "Ae0"
    query_timeout = 120000

    def inputs(self, mk):
        p = self.params
        return dict(specs=cm.specs_from(mk, p),
                    C=[mk.var("C" + x) for x in "xyz"])

    def code(self, I, mk):
        from gbasis.integrals.moment import moment_integral

        basis = cm.basis_from(mk, I["specs"], self.params["types"])
        return {"M": moment_integral(basis, mk.array(I["C"]), np.array(_orders(self.params), dtype=int))}

    def ref(self, I, ops, mk):
        res = []
        for o in _orders(self.params):
            full = cm.ref_two_index(ops, I["specs"], self.params["types"], lambda A, B, o=o: G.moment_prim(ops, A, B, I["C"], o))
            res.append(np.array(full, dtype=object))
        return {"M": np.stack(res, axis=-1)}


class ZeroIsOverlap(Case):
    """order (0,0,0) reproduces overlap_integral (code vs code)"""

    prop = "C07"
    canary_scale = "Ae0"

    def inputs(self, mk):
        p = self.params
        return dict(specs=cm.specs_from(mk, p),
                    C=[mk.var("C" + x) for x in "xyz"])

    def code(self, I, mk):
        from gbasis.integrals.moment import moment_integral

        basis = cm.basis_from(mk, I["specs"], self.params["types"])
        return {"S": moment_integral(basis, mk.array(I["C"]), np.array([[0, 0, 0]], dtype=int))[:, :, 0]}

    def ref(self, I, ops, mk):
        from gbasis.integrals.overlap import overlap_integral

        return {"S": overlap_integral(cm.basis_from(mk, I["specs"], self.params["types"]))}


class Shift(Case):
    """M_e(C + d) = sum_k binom(e,k) (-d)^(e-k) M_k(C)   componentwise (code vs code, symbolic d)"""

    prop = "C07"
    canary_scale = "dx"

    def inputs(self, mk):
        p = self.params
        return dict(specs=cm.specs_from(mk, p),
                    C=[mk.var("C" + x) for x in "xyz"], d=[mk.var("d" + x) for x in "xyz"])

    def _lower(self):
        e = self.params["order"]
        return [t for t in itertools.product(*[range(k + 1) for k in e])]

    def code(self, I, mk):
        from gbasis.integrals.moment import moment_integral

        basis = cm.basis_from(mk, I["specs"], self.params["types"], normalise=False)
        for s in basis:
            s.norm_cont = mk.array(np.ones((s.num_seg_cont, s.num_cart), dtype=object) * mk.const(1)) if mk.symbolic else np.ones((s.num_seg_cont, s.num_cart))
        Cd = [c + d for c, d in zip(I["C"], I["d"])]
        return {"M": moment_integral(basis, mk.array(Cd), np.array([self.params["order"]], dtype=int))[:, :, 0]}

    def ref(self, I, ops, mk):
        from gbasis.integrals.moment import moment_integral

        basis = cm.basis_from(mk, I["specs"], self.params["types"], normalise=False)
        for s in basis:
            s.norm_cont = mk.array(np.ones((s.num_seg_cont, s.num_cart), dtype=object) * mk.const(1)) if mk.symbolic else np.ones((s.num_seg_cont, s.num_cart))
        low = self._lower()
        M = moment_integral(basis, mk.array(I["C"]), np.array(low, dtype=int))
        e = self.params["order"]
        tot = None
        for idx, k in enumerate(low):
            # (x - C - d)^e = sum_k binom(e,k) (x-C)^k (-d)^(e-k)
            f = 1
            for ax in range(3):
                f = f * comb(e[ax], k[ax]) * (-I["d"][ax]) ** (e[ax] - k[ax])
            term = M[:, :, idx] * f
            tot = term if tot is None else tot + term
        return {"M": tot}


def cases(tier):
    out = []
    lmax = 2 if tier == "quick" else 3
    omax = 2 if tier == "quick" else 3
    # every (la, lb) <= lmax with every order triple <= omax, enumerated; orders passed in blocks of mixed sequence
    triples = list(itertools.product(range(omax + 1), repeat=3))
    for la in range(lmax + 1):
        for lb in range(lmax + 1):
            # split the triples into lists of 9 / 25 in a scrambled order so that the order axis matters
            scr = sorted(triples, key=lambda t: (t[0] * 7 + t[1] * 3 + t[2] * 5 + la + 2 * lb) % 11)
            step = 9 if tier == "quick" else 16
            for i in range(0, len(scr), step):
                out.append(Block(la=la, lb=lb, Ka=1, Kb=1, Ma=1, Mb=1, orders=[list(t) for t in scr[i:i + step]]))
    if tier == "quick":
        # the top of the property's ranges (g shells, order 4) also in the quick tier, on short order lists
        for la, lb in [(4, 0), (0, 4), (3, 3)]:
            out.append(Block(la=la, lb=lb, Ka=1, Kb=1, Ma=1, Mb=1, orders=[[1, 0, 0], [0, 2, 1]]))
        for la, lb in [(0, 0), (1, 0), (0, 2)]:
            out.append(Block(la=la, lb=lb, Ka=1, Kb=1, Ma=1, Mb=1, orders=[[4, 0, 0], [0, 3, 1], [0, 0, 4]]))
    for la, lb in [(1, 0), (1, 1), (2, 1)]:
        out.append(Block(la=la, lb=lb, Ka=2, Kb=1, Ma=1, Mb=2, orders=[[1, 0, 2], [0, 0, 0], [2, 1, 0]]))
    # all orderings of a 3-element list
    for perm in itertools.permutations([[1, 0, 0], [0, 2, 1], [0, 0, 0]]):
        out.append(Block(la=1, lb=1, Ka=1, Kb=1, Ma=1, Mb=1, orders=[list(t) for t in perm]))
    # equal l and >= 2 columns on both sides (two different generalized shells of one type)
    for l in (0, 1):
        out.append(Block(la=l, lb=l, Ka=1, Kb=2, Ma=2, Mb=2, orders=[[0, 0, 0], [1, 0, 1]]))
    out.append(Public(ls=[0, 1], types="cc", Ks=[2, 1], Ms=[1, 2], orders=[[1, 0, 0], [0, 1, 1]]))
    out.append(Public(ls=[2, 1], types="sc", Ks=[1, 1], Ms=[1, 1], orders=[[0, 0, 2], [1, 1, 0]]))
    out.append(Public(ls=[1, 1, 0], types="ccc", Ks=[1, 1, 1], Ms=[1, 1, 1], orders=[[1, 0, 1], [0, 2, 0]], twin={"1": 0}, share={"2": 0}))
    out.append(ZeroIsOverlap(ls=[1, 2], types="cs", Ks=[2, 1], Ms=[1, 1]))
    out.append(Shift(ls=[1, 0], types="cc", Ks=[1, 1], Ms=[1, 1], order=[2, 1, 0]))
    out.append(Shift(ls=[1, 1], types="cc", Ks=[1, 1], Ms=[1, 1], order=[1, 1, 1]))
    if tier == "thorough":
        # order 4 along an axis and l = 4, on a reduced list of orders
        for la, lb in [(0, 0), (1, 0), (0, 2), (2, 2)]:
            out.append(Block(la=la, lb=lb, Ka=1, Kb=1, Ma=1, Mb=1, orders=[[4, 0, 0], [0, 4, 1], [2, 0, 4], [4, 4, 4]]))
        for la, lb in [(4, 0), (0, 4), (4, 2), (3, 4)]:
            out.append(Block(la=la, lb=lb, Ka=1, Kb=1, Ma=1, Mb=1, orders=[[1, 0, 0], [0, 2, 1], [3, 0, 2]]))
        out.append(Public(ls=[3, 1], types="cs", Ks=[1, 1], Ms=[1, 1], orders=[[1, 1, 1]]))
        out.append(ZeroIsOverlap(ls=[0, 1, 2], types="csc", Ks=[1, 2, 1], Ms=[2, 1, 1]))
        out.append(Shift(ls=[2, 1], types="cc", Ks=[1, 1], Ms=[1, 1], order=[2, 2, 1]))
        out.append(Shift(ls=[2, 2], types="cc", Ks=[1, 1], Ms=[1, 1], order=[0, 3, 2]))
        out.append(Shift(ls=[1, 2], types="sc", Ks=[1, 1], Ms=[1, 1], order=[1, 0, 2]))
    return out


def main(tier="quick", seed=0, only=None):
    cs = cm.parse_only(cases(tier), only)
    bounds = {
        "angular_momenta": "every (la, lb) <= 2 (quick) / <= 3 (thorough), enumerated; quick adds (4,0), (0,4), (3,3) on two triples and three low pairs on triples with an order 4; thorough adds four pairs with l = 4 on three order triples",
        "orders": "every order triple with each order <= 2 (quick) / <= 3 (thorough), enumerated, passed as scrambled lists; all 6 orderings of one 3-element list; thorough adds four triples with an order 4 for four low-l pairs",
        "origin": "symbolic (covers on-centre, off-centre, far)", "primitives": "K <= 2", "segments": "M <= 2",
        "outside": "floating-point rounding; K > 2; more than 3 shells",
    }
    assumptions = ["real-number semantics", "exponents > 0, coefficients != 0", "factorial2 stub = exact contract"]
    return run_property("C07", cs, tier, seed, ENCODED, bounds, assumptions, title="Multipole moments.")
