"""C18 - basis-set import preserves every shell and leaves its arguments intact.

(a) regular-language obligations (z3 sequence / regex theory) on the patterns the parsers use - the patterns
    are read from the current source with `ast`: every well-formed header / number row of the generated grammar
    is matched as intended, nothing else in a well-formed file is;
(b) the real parsers on skeleton files whose layout is chosen by small symbolic integers (CrossHair): text
    before the first element (zero / one / many lines), whitespace runs, element symbols, shell letters (SP,
    case), number formats; post-condition = parsed dictionary == the data the skeleton was built from;
    each harness has a twin with a deliberately wrong expectation that CrossHair must refute (CrossHair's
    own "confirmed" is otherwise not believed);
(c) the same skeleton grammar enumerated concretely over its discrete layout features (ground cases);
(d) make_contractions and from_pyscf: data preserved positionally (symbolic exponents / coefficients, SX).
"""
import ast
import hashlib
import itertools
import json
import os
import re
import time

import numpy as np

from sx import harness
from sx.harness import Case, run_property
from . import common as cm

ENCODED = [
    "gbasis.parsers:parse_nwchem",
    "gbasis.parsers:parse_gbs",
    "gbasis.parsers:make_contractions",
    "gbasis.wrappers:from_pyscf",
    "gbasis.contractions:GeneralizedContractionShell.__init__",
]


def extract_patterns(path=None):
    """string literals passed as first argument to re.split / re.search, per parser function, in source order"""
    path = path or os.path.join(harness.REPO, "gbasis", "parsers.py")
    tree = ast.parse(open(path).read())
    out = {}
    for node in tree.body:
        if isinstance(node, ast.FunctionDef):
            pats = []
            for sub in ast.walk(node):
                if (isinstance(sub, ast.Call) and isinstance(sub.func, ast.Attribute) and isinstance(sub.func.value, ast.Name)
                        and sub.func.value.id == "re" and sub.func.attr in ("split", "search", "match", "fullmatch", "findall")
                        and sub.args and isinstance(sub.args[0], ast.Constant) and isinstance(sub.args[0].value, str)):
                    pats.append((sub.lineno, sub.col_offset, sub.args[0].value))
            out[node.name] = [p for _, _, p in sorted(pats)]
    return out


# ---- (a) regular-language obligations -----------------------------------------------------------


def regex_obligations(tier):
    import z3

    from sx import rx

    t0 = time.time()
    pats = extract_patterns()
    D = rx.Decider(30000 if tier == "quick" else 120000)
    extra = dict(obligations=0, discharged=0, violations=[], known=[], inconclusive=[], harness_errors=[], samples=[],
                 evaluations=0, distinct_nontrivial=0, coverage={})
    rows = []

    def lit(s):
        return z3.Re(s)

    def cat(*a):
        return z3.Concat(*a)

    sp = z3.Re(" ")
    WS0, WS1 = z3.Star(sp), z3.Plus(sp)
    upper, lower, digit = z3.Range("A", "Z"), z3.Range("a", "z"), z3.Range("0", "9")
    elem = cat(upper, z3.Option(lower))
    lletter = z3.Union(*[lit(c) for c in "spdfghikSPDFGHIK"])
    lword = z3.Union(lletter, cat(lletter, lletter))  # single letters and combined shells such as SP
    sign = z3.Option(z3.Union(lit("+"), lit("-")))
    mant = z3.Union(cat(z3.Plus(digit), lit("."), z3.Star(digit)), cat(lit("."), z3.Plus(digit)))
    expo = cat(z3.Union(lit("E"), lit("D")), sign, z3.Loop(digit, 1, 3))
    number = cat(sign, mant, z3.Option(expo))
    number_e = cat(sign, mant, z3.Option(cat(lit("e"), sign, z3.Loop(digit, 1, 3))))  # image under lower().replace('d','e')
    row = cat(WS0, number, z3.Loop(cat(WS1, number), 1, 7), WS0)
    any_line = z3.Star(rx.ANY_NO_NL)
    comment_nw = cat(WS0, lit("#"), any_line)
    comment_gbs = cat(WS0, lit("!"), any_line)
    blank = WS0
    nw_header = cat(WS0, elem, WS1, lword, WS0)
    gbs_elem = cat(WS0, elem, WS1, z3.Plus(digit), WS0)
    gbs_shell = cat(WS0, lword, WS1, z3.Plus(digit), WS1, z3.Plus(digit), lit("."), z3.Plus(digit), WS0)
    stars = cat(WS0, lit("****"), WS0)
    pyfloat = cat(sign, z3.Union(cat(z3.Plus(digit), z3.Option(lit(".")), z3.Star(digit)), cat(lit("."), z3.Plus(digit))),
                  z3.Option(cat(z3.Union(lit("e"), lit("E")), sign, z3.Plus(digit))))
    nl = lit("\n")
    everything = z3.Star(rx.ALPHABET)

    def framed(r):
        return cat(nl, r, nl)

    def do(name, where, kind, a, b, expect_member, mode, frame):
        """kind 'subset': L(a) ⊆ L(b);  kind 'disjoint': L(a) ∩ L(b) = ∅.  The witness is re-evaluated with Python's re."""
        extra["obligations"] += 1
        extra["evaluations"] += 1
        st, w = (D.subset(a, b) if kind == "subset" else D.disjoint(a, b))
        rows.append({"obligation": name, "result": st})
        if st == "unsat":
            extra["discharged"] += 1
            extra["distinct_nontrivial"] += 1
            return
        if st == "sat" and where is not None:
            text = rx.decode_z3_string(w)
            d = os.path.join(harness.VERIF, "replays", "C18")
            os.makedirs(d, exist_ok=True)
            payload = {"kind": "regex", "property": "C18", "where": where, "text": text, "mode": mode, "expect": expect_member}
            path = os.path.join(d, hashlib.sha1(json.dumps(payload, sort_keys=True).encode()).hexdigest()[:12] + ".json")
            json.dump(payload, open(path, "w"), indent=1)
            pat = pats[where[0]][where[1]]
            ok = (re.fullmatch(pat, text) if mode == "fullmatch" else re.search(pat, text)) is not None
            rec = {"key": name, "case": "regex", "replay": path, "detail": f"witness {text!r}: re.{mode} -> {ok}, expected {expect_member}"}
            if ok != expect_member:
                kf = harness.match_known("C18", "regex", name)
                if kf:
                    rec["known"] = kf["id"]
                    extra["known"].append(rec)
                else:
                    extra["violations"].append(rec)
            else:
                extra["inconclusive"].append(dict(rec, why="z3 witness not confirmed by Python's re (translation of the pattern is imprecise here)"))
        else:
            extra["inconclusive"].append({"key": name, "case": "regex", "why": f"z3 returned {st}"})

    try:
        nw = pats["parse_nwchem"]
        gb = pats["parse_gbs"]
        H_nw, R_nw, W_nw = rx.to_z3(nw[0]), rx.search_language(nw[1]), rx.to_z3(nw[2])
        E_gb, S_gb, R_gb, W_gb = rx.to_z3(gb[0]), rx.to_z3(gb[1]), rx.search_language(gb[2]), rx.to_z3(gb[3])
    except (KeyError, IndexError, rx.Unsupported) as e:
        extra["harness_errors"].append(f"C18 regex extraction/translation failed: {type(e).__name__}: {e}")
        return extra
    cont = lambda r: cat(everything, r, everything)  # noqa: E731
    # NWChem
    do("nw: well-formed header lines match the header pattern", ["parse_nwchem", 0], "subset", framed(nw_header), H_nw, True, "fullmatch", True)
    do("nw: a number row never contains a header match", ["parse_nwchem", 0], "disjoint", framed(row), cont(H_nw), False, "search", True)
    do("nw: a comment line never contains a header match", ["parse_nwchem", 0], "disjoint", framed(comment_nw), cont(H_nw), False, "search", True)
    do("nw: blank lines never contain a header match", ["parse_nwchem", 0], "disjoint", cat(nl, blank, nl, blank, nl), cont(H_nw), False, "search", True)
    do("nw: every number row matches the row pattern", ["parse_nwchem", 1], "subset", row, R_nw, True, "search", False)
    do("nw: comment lines do not match the row pattern", ["parse_nwchem", 1], "disjoint", comment_nw, R_nw, False, "search", False)
    do("nw: blank lines do not match the row pattern", ["parse_nwchem", 1], "disjoint", blank, R_nw, False, "search", False)
    do("nw: numbers contain no separator of the coefficient split", ["parse_nwchem", 2], "disjoint", number, cont(W_nw), False, "search", False)
    # Gaussian94
    do("gbs: element header lines match the element pattern", ["parse_gbs", 0], "subset", framed(gbs_elem), E_gb, True, "fullmatch", True)
    do("gbs: shell header lines match the shell pattern", ["parse_gbs", 1], "subset", cat(gbs_shell, nl), cat(z3.Option(nl), S_gb), True, "search", True)
    do("gbs: a shell header never contains an element-header match", ["parse_gbs", 0], "disjoint", framed(gbs_shell), cont(E_gb), False, "search", True)
    do("gbs: a number row never contains an element-header match", ["parse_gbs", 0], "disjoint", framed(row), cont(E_gb), False, "search", True)
    do("gbs: the **** separator never contains an element-header match", ["parse_gbs", 0], "disjoint", framed(stars), cont(E_gb), False, "search", True)
    do("gbs: a comment line never contains an element-header match", ["parse_gbs", 0], "disjoint", framed(comment_gbs), cont(E_gb), False, "search", True)
    do("gbs: a number row never contains a shell-header match", ["parse_gbs", 1], "disjoint", cat(nl, row, nl), cont(S_gb), False, "search", True)
    do("gbs: every number row matches the row pattern", ["parse_gbs", 2], "subset", row, R_gb, True, "search", False)
    do("gbs: the **** separator does not match the row pattern", ["parse_gbs", 2], "disjoint", stars, R_gb, False, "search", False)
    # number format: lower-casing and D -> e maps the grammar into Python's float grammar
    do("numbers: image under lower().replace('d','e') lies in Python's float grammar", None, "subset", number_e, pyfloat, True, "", False)
    extra["samples"] = [{"regex_obligation": r["obligation"], "result": r["result"]} for r in rows[:3]]
    extra["coverage"] = {"regex": {"patterns": pats, "obligations": rows, "queries": D.queries, "solver_s": round(D.seconds, 2),
                                   "grammar": "element [A-Z][a-z]?; shell letters s..k in either case, one or two per header; numbers "
                                              "sign? (digits '.' digits* | '.' digits+) ([ED] sign? digits{1,3})?; rows of 2-8 numbers; separators = spaces",
                                   "wall_s": round(time.time() - t0, 1)}}
    extra["queries"] = D.queries
    extra["solver_s"] = round(D.seconds, 2)
    return extra


# ---- (c) skeleton files, enumerated layout features ---------------------------------------------


SHELLS = {
    "H": [("S", [1.25, 0.5], [[0.25, 0.75]]), ("SP", [2.5, 0.125], [[0.5, -0.25], [1.5, 2.0]])],
    "He": [("p", [3.0], [[1.0]])],
    "Li": [("S", [4.0, 1.0, 0.25], [[0.5, 0.25, 1.0], [0.125, 2.0, -1.0]]), ("D", [0.75], [[1.0]])],
    # one shell per letter of the spectroscopic sequence s p d f g h i k (j is skipped)
    # the last shell of one element and the first shell of the next with the same l and the same exponents
    "B": [("S", [2.0, 0.5], [[0.75, 0.5]]), ("P", [1.75, 0.375], [[0.5, 1.25]])],
    "C": [("P", [1.75, 0.375], [[1.5, -0.25]]), ("D", [0.625], [[1.0]])],
    "Ne": [("F", [1.5], [[1.0]]), ("g", [1.25], [[1.0]]), ("H", [0.5], [[1.0]]), ("I", [0.25], [[1.0]]), ("K", [0.125], [[1.0]])],
}
ANG = {"s": 0, "p": 1, "d": 2, "f": 3, "g": 4, "h": 5, "i": 6, "k": 7}


def _fmt_num(x, style):
    if style == "plain":
        return repr(float(x))
    m = f"{x:.8E}"
    return m.replace("E", "D") if style == "D" else m


# rendered once at import time (CrossHair models float formatting symbolically; the harness must hand the
# parsers ordinary strings)
_NUMSTR = {}
for _el in SHELLS.values():
    for _letters, _exps, _cols in _el:
        for _v in list(_exps) + [c for col in _cols for c in col]:
            for _st in ("plain", "E", "D"):
                _NUMSTR[(float(_v), _st)] = _fmt_num(_v, _st)


def fmt_num(x, style):
    return _NUMSTR[(float(x), style)]


ALL_ELEMENTS = ("H", "He", "Li", "B", "C", "Ne")


def _noise(lines, noise, k, nprim, comment):
    """layout noise inside a shell: after primitive row `pos` (when another row follows) a blank or a comment line"""
    if noise is not None and k == noise[1] and k + 1 < nprim:
        lines.append("" if noise[0] == "blank" else comment)


def nwchem_text(pre_lines, gap, lead, style, elements=ALL_ELEMENTS, comments=True, blank_between=False, noise=None):
    lines = list(pre_lines)
    for el in elements:
        for letters, exps, cols in SHELLS[el]:
            if comments:
                lines.append("#BASIS SET: comment")
            lines.append(" " * lead + el + " " * gap + letters)
            for k, e in enumerate(exps):
                lines.append(" " * (lead + 2) + fmt_num(e, style) + "".join(" " * gap + fmt_num(c[k], style) for c in cols))
                _noise(lines, noise, k, len(exps), "# comment inside a shell")
            if blank_between:
                lines.append("")
    lines.append("END")
    return "\n".join(lines) + "\n"


def expected_nwchem(elements=ALL_ELEMENTS):
    out = {}
    for el in elements:
        lst = []
        for letters, exps, cols in SHELLS[el]:
            if len(letters) == 1:
                lst.append((ANG[letters.lower()], list(exps), [list(r) for r in zip(*cols)]))
            else:
                for i, ch in enumerate(letters):
                    lst.append((ANG[ch.lower()], list(exps), list(cols[i])))
        out[el] = lst
    return out


def gbs_text(pre_lines, gap, lead, style, elements=ALL_ELEMENTS, noise=None):
    lines = list(pre_lines)
    for el in elements:
        lines.append(" " * lead + el + " " * gap + "0")
        for letters, exps, cols in SHELLS[el]:
            if len(letters) == 1:
                # Gaussian94 writes one segmented contraction per block; consecutive blocks with the same exponents merge
                for col in cols:
                    lines.append(letters + " " * gap + str(len(exps)) + " " * gap + "1.00")
                    for k, e in enumerate(exps):
                        lines.append(" " * 6 + fmt_num(e, style) + " " * gap + fmt_num(col[k], style))
                        _noise(lines, noise, k, len(exps), "! comment inside a shell")
            else:
                lines.append(letters + " " * gap + str(len(exps)) + " " * gap + "1.00")
                for k, e in enumerate(exps):
                    lines.append(" " * 6 + fmt_num(e, style) + "".join(" " * gap + fmt_num(c[k], style) for c in cols))
                    _noise(lines, noise, k, len(exps), "! comment inside a shell")
        lines.append("****")
    return "\n".join(lines) + "\n"


def expected_gbs(elements=ALL_ELEMENTS):
    out = {}
    for el in elements:
        lst = []
        for letters, exps, cols in SHELLS[el]:
            if len(letters) == 1:
                lst.append((ANG[letters.lower()], list(exps), [list(r) for r in zip(*cols)]))
            else:
                for i, ch in enumerate(letters):
                    lst.append((ANG[ch.lower()], list(exps), [[v] for v in cols[i]]))
        out[el] = lst
    return out


def same_parse(got, want):
    if list(got.keys()) != list(want.keys()):
        return False
    for el in want:
        if len(got[el]) != len(want[el]):
            return False
        for (l1, e1, c1), (l2, e2, c2) in zip(got[el], want[el]):
            if l1 != l2 or not np.array_equal(np.asarray(e1, dtype=float), np.asarray(e2, dtype=float)):
                return False
            a, b = np.asarray(c1, dtype=float), np.asarray(c2, dtype=float)
            if a.shape != b.shape or not np.array_equal(a, b):
                return False
    return True


PRE = {"none": [], "one": ["# single comment line"], "blank": [""], "blank2": ["", ""], "many": ["# a", "# b", "", "BASIS \"ao basis\" PRINT"],
       "comment_blank": ["# a", ""]}
PRE_GBS = {"none": [], "one": ["! single comment line"], "blank": [""], "blank2": ["", ""], "many": ["! a", "! b", "", ""], "comment_blank": ["! a", ""]}


class Skeleton(Case):
    """the real parser on a generated well-formed file: parsed dictionary == generated data, in file order"""

    prop = "C18"
    concrete_only = True

    def inputs(self, mk):
        return dict(mk=mk)

    def code(self, I, mk):
        import tempfile

        from gbasis.parsers import parse_gbs, parse_nwchem

        p = self.params
        if p["fmt"] == "nwchem":
            text = nwchem_text(PRE[p["pre"]], p["gap"], p["lead"], p["style"], comments=p.get("comments", True), blank_between=p.get("blank", False),
                               noise=p.get("noise"))
            fn, want = parse_nwchem, expected_nwchem()
        else:
            text = gbs_text(PRE_GBS[p["pre"]], p["gap"], p["lead"], p["style"], noise=p.get("noise"))
            fn, want = parse_gbs, expected_gbs()
        with tempfile.NamedTemporaryFile("w", suffix=".basis", delete=False) as fh:
            fh.write(text)
            name = fh.name
        try:
            got = fn(name)
        finally:
            os.unlink(name)
        return {"ok": np.array([1.0 if same_parse(got, want) else 0.0])}

    def ref(self, I, ops, mk):
        return {"ok": np.array([1.0])}

    def replay_compare(self, label, idx, a, b):
        return a != b


class Pyscf(Case):
    """from_pyscf: exponents and every coefficient column preserved positionally, atom order, coordinate type"""

    prop = "C18"
    canary_scale = "e0_0_0"
    conformance = False

    def inputs(self, mk):
        # two atoms (same element twice + another), generalized shell with 2 columns
        data = {}
        for a, el in enumerate(["H", "O"]):
            shells = []
            for s, (l, K, M) in enumerate([(0, 2, 2), (1, 1, 1)] if el == "H" else [(2, 2, 1)]):
                rows = [[mk.var(f"e{a}_{s}_{k}", ">0")] + [mk.var(f"c{a}_{s}_{k}_{m}", "!=0") for m in range(M)] for k in range(K)]
                shells.append((l, rows))
            data[el] = shells
        return dict(data=data, cart=self.params["cart"])

    def _mol(self, I, mk):
        class Mole:  # the wrapper only looks at the class name and these attributes
            pass

        m = Mole()
        m._basis = {el: [[l] + [list(r) for r in rows] for l, rows in shells] for el, shells in I["data"].items()}
        if mk.symbolic:
            # np.vstack on rows of Sym gives object arrays
            pass
        m._atom = [("H", (0.0, 0.0, 0.0)), ("O", (0.0, 0.0, 1.5)), ("H", (1.0, 0.0, 0.0))]
        m.cart = I["cart"]
        return m

    def code(self, I, mk):
        from gbasis.wrappers import from_pyscf

        basis = from_pyscf(self._mol(I, mk))
        out = {"n": np.array([len(basis)], dtype=object)}
        for i, sh in enumerate(basis):
            out[f"exps{i}"] = np.asarray(sh.exps).view(np.ndarray)
            out[f"coeffs{i}"] = np.asarray(sh.coeffs).view(np.ndarray)
            out[f"meta{i}"] = np.array([sh.angmom, 1 if sh.coord_type == "cartesian" else 0] + [float(v) for v in sh.coord], dtype=object)
        return out

    def ref(self, I, ops, mk):
        out = {"n": np.array([5], dtype=object)}
        i = 0
        for el, xyz in [("H", (0.0, 0.0, 0.0)), ("O", (0.0, 0.0, 1.5)), ("H", (1.0, 0.0, 0.0))]:
            for l, rows in I["data"][el]:
                out[f"exps{i}"] = np.array([r[0] for r in rows], dtype=object)
                out[f"coeffs{i}"] = np.array([r[1:] for r in rows], dtype=object)
                out[f"meta{i}"] = np.array([l, 1 if I["cart"] else 0] + list(xyz), dtype=object)
                i += 1
        return out


class MakeContr(__import__("checks.c19", fromlist=["MakeContr"]).MakeContr):
    """make_contractions: shells at each atom's coordinates in atom order with the requested coordinate types (list /
    tuple / str), atom index, arguments unaltered, repeated call with the same objects (shared with C19)"""

    prop = "C18"


def cases(tier, seed=0):
    out = []
    for kind in ("list", "tuple", "str"):
        out.append(MakeContr(kind=kind))
    for fmt in ("nwchem", "gbs"):
        for pre in PRE:
            out.append(Skeleton(fmt=fmt, pre=pre, gap=4, lead=0, style="plain"))
        for gap, lead, style in itertools.product((1, 3), (0, 2), ("plain", "E", "D")):
            out.append(Skeleton(fmt=fmt, pre="many", gap=gap, lead=lead, style=style))
    out.append(Skeleton(fmt="nwchem", pre="many", gap=2, lead=0, style="E", comments=False))
    out.append(Skeleton(fmt="nwchem", pre="many", gap=2, lead=0, style="D", blank=True))
    # a blank or a comment line between the primitive rows of a shell
    for fmt in ("nwchem", "gbs"):
        for kind in ("blank", "comment"):
            for pos in (0, 1):
                out.append(Skeleton(fmt=fmt, pre="one", gap=2, lead=0, style="E", noise=[kind, pos]))
    out.append(Pyscf(cart=True))
    out.append(Pyscf(cart=False))
    return out


def main(tier="quick", seed=0, only=None):
    from . import ch_runner

    cs = cm.parse_only(cases(tier, seed), only)
    extra = regex_obligations(tier)
    ch = ch_runner.run("C18", "crosshair_harness.c18_parsers", tier)
    for k in ("obligations", "discharged", "evaluations", "distinct_nontrivial"):
        extra[k] += ch[k]
    for k in ("violations", "known", "inconclusive", "harness_errors", "samples"):
        extra[k] += ch[k]
    extra["coverage"].update(ch["coverage"])
    bounds = {
        "regex": "grammar of well-formed lines stated in coverage.regex.grammar; z3 string length <= 40",
        "crosshair": "skeleton files with symbolic layout: number of lines before the first element 0..2, each blank or a comment; "
                     "gap widths 1..3; element symbol and shell letters chosen by symbolic indices; per-condition timeout in coverage.crosshair",
        "skeletons": "four elements, ten shell blocks (generalized, SP, lower-case letters, every letter s..k), plain / E / D numbers, six kinds of text before the "
                     "first element x gap / indentation variants, for both formats",
        "pyscf": "fake Mole with symbolic exponents / coefficients (5 shells over 3 atoms with a repeated element)",
        "outside": "tabs as separators, three-letter element symbols, numbers without a decimal point, lower-case exponent markers (not part of the stated formats); "
                   "files longer than the skeletons",
    }
    assumptions = ["the regex translation covers the syntax used by the parsers' patterns and is confirmed per witness with Python's re",
                   "CrossHair verdicts are believed only together with their refuted twins"]
    return run_property("C18", cs, tier, seed, ENCODED, bounds, assumptions, extra=extra, title="Basis-set import.")
