"""C03 - point-charge and nuclear-attraction integrals exact"""
import numpy as np

from refs import gauss as G
from sx.harness import Case, run_property, shell_spec, make_shell
from . import common as cm

ENCODED = [
    "gbasis.integrals._one_elec_int:_compute_one_elec_integrals",
    "gbasis.integrals.point_charge:PointChargeIntegral.boys_func",
    "gbasis.integrals.point_charge:PointChargeIntegral.construct_array_contraction",
    "gbasis.integrals.point_charge:point_charge_integral",
    "gbasis.integrals.nuclear_electron_attraction:nuclear_electron_attraction_integral",
    "gbasis.base_two_symm:BaseTwoIndexSymmetric.construct_array_cartesian",
    "gbasis.base_two_symm:BaseTwoIndexSymmetric.construct_array_mix",
]


def _charges(mk, n, on=None):
    pts = [[mk.var(f"R{i}{x}") for x in "xyz"] for i in range(n)]
    q = [mk.var(f"q{i}") for i in range(n)]
    return pts, q


class Block(Case):
    """PointChargeIntegral block == -q (2 pi / p) sum_tuv E_t E_u E_v R_tuv (McMurchie-Davidson), both
    la >= lb and la < lb (exercises the swap / un-swap), symbolic charge positions and charges of either sign"""

    prop = "C03"
    canary_scale = "Ae0"
    rtol = 1e-7

    @property
    def concrete(self):
        c = self.params.get("exps")
        if not c:
            return None
        return {f"{t}e{k}": v for t, vs in zip("AB", c) for k, v in enumerate(vs)}

    def inputs(self, mk):
        p = self.params
        sa = shell_spec(mk, "A", p["la"], p["Ka"], p["Ma"])
        coordB = sa["A"] if p.get("same_centre") else None
        sb = shell_spec(mk, "B", p["lb"], p["Kb"], p["Mb"], coord=coordB)
        pts, q = _charges(mk, p["nq"])
        if p.get("on_centre"):
            pts[0] = list(sa["A"])
        return dict(sa=sa, sb=sb, pts=pts, q=q)

    def code(self, I, mk):
        from gbasis.integrals.point_charge import PointChargeIntegral

        a = make_shell(mk, I["sa"], normalise=False)
        b = make_shell(mk, I["sb"], normalise=False)
        return {"V": PointChargeIntegral.construct_array_contraction(a, b, mk.array(I["pts"]), mk.array(I["q"]))}

    def ref(self, I, ops, mk):
        res = []
        for C, q in zip(I["pts"], I["q"]):
            blk = np.array(G.contracted(ops, I["sa"], I["sb"], G.nuclear_prim(ops, I["sa"]["A"], I["sb"]["A"], C)), dtype=object)
            res.append(blk * (-q))
        return {"V": np.stack(res, axis=-1)}


class Public(Case):
    """point_charge_integral == normalised reference per charge; nuclear attraction == sum over charges"""

    prop = "C03"
    canary_scale = "Ae0"
    query_timeout = 120000
    rtol = 1e-7

    def inputs(self, mk):
        p = self.params
        pts, q = _charges(mk, p["nq"])
        return dict(specs=cm.specs_from(mk, p), pts=pts, q=q)

    def code(self, I, mk):
        from gbasis.integrals.point_charge import point_charge_integral
        from gbasis.integrals.nuclear_electron_attraction import nuclear_electron_attraction_integral

        basis = cm.basis_from(mk, I["specs"], self.params["types"])
        V = point_charge_integral(basis, mk.array(I["pts"]), mk.array(I["q"]))
        N = nuclear_electron_attraction_integral(basis, mk.array(I["pts"]), mk.array(I["q"]))
        return {"V": V, "N": N}

    def ref(self, I, ops, mk):
        res = []
        for C, q in zip(I["pts"], I["q"]):
            full = cm.ref_two_index(ops, I["specs"], self.params["types"], lambda A, B, C=C: G.nuclear_prim(ops, A, B, C))
            res.append(np.array(full, dtype=object) * (-q))
        V = np.stack(res, axis=-1)
        N = res[0]
        for r in res[1:]:
            N = N + r
        return {"V": V, "N": N}


def cases(tier):
    out = []
    lim = 4 if tier == "quick" else 5
    for la in range(6):
        for lb in range(6):
            if la + lb <= lim:
                out.append(Block(la=la, lb=lb, Ka=1, Kb=1, Ma=1, Mb=1, nq=1))
    if tier == "quick":
        # the top of the property's range (h shells) also in the quick tier
        out.append(Block(la=5, lb=0, Ka=1, Kb=1, Ma=1, Mb=1, nq=1))
        out.append(Block(la=0, lb=5, Ka=1, Kb=1, Ma=1, Mb=1, nq=1))
    for la, lb in [(1, 0), (0, 1), (1, 1), (2, 1), (1, 2)]:
        out.append(Block(la=la, lb=lb, Ka=2, Kb=1, Ma=1, Mb=2, nq=2))
    # charge exactly on a Gaussian centre; all three centres coincident (Boys argument identically 0)
    out.append(Block(la=2, lb=1, Ka=1, Kb=1, Ma=1, Mb=1, nq=1, on_centre=True))
    out.append(Block(la=1, lb=1, Ka=1, Kb=1, Ma=1, Mb=1, nq=1, on_centre=True, same_centre=True))
    out.append(Block(la=2, lb=0, Ka=2, Kb=1, Ma=1, Mb=1, nq=1, on_centre=True, same_centre=True))
    # primitives listed from diffuse to tight (nothing orders the primitives of a shell), concrete exponents
    out.append(Block(la=0, lb=1, Ka=2, Kb=2, Ma=1, Mb=1, nq=1, exps=[["3/10", "5"], ["2/5", "11/4"]]))
    out.append(Block(la=1, lb=0, Ka=3, Kb=1, Ma=1, Mb=1, nq=1, exps=[["1/50", "3/2", "7"], ["13/10"]]))
    # equal l and >= 2 columns on both sides (two different generalized shells of one type)
    for l in (0, 1):
        out.append(Block(la=l, lb=l, Ka=1, Kb=2, Ma=2, Mb=2, nq=1))
    out.append(Public(ls=[0, 1], types="cc", Ks=[2, 1], Ms=[1, 2], nq=2))
    out.append(Public(ls=[1, 0], types="cc", Ks=[1, 1], Ms=[1, 1], nq=1))
    out.append(Public(ls=[2, 1], types="sc", Ks=[1, 1], Ms=[1, 1], nq=1))
    # homonuclear: the same shell (exponents, coefficients) on two centres, plus a second shell on the first centre
    out.append(Public(ls=[1, 1, 0], types="ccc", Ks=[1, 1, 1], Ms=[1, 1, 1], nq=1, twin={"1": 0}, share={"2": 0}))
    if tier == "thorough":
        E = cm.EXP_POOL
        for la in range(6):
            for lb in range(6):
                if la + lb > 5:
                    out.append(Block(la=la, lb=lb, Ka=1, Kb=1, Ma=1, Mb=1, nq=1,
                                     exps=[[str(E[(la + lb) % 4])], [str(E[(la * 2 + lb + 1) % 4])]]))
        for la, lb in [(2, 2), (3, 1), (1, 3), (0, 3)]:
            out.append(Block(la=la, lb=lb, Ka=2, Kb=2, Ma=2, Mb=1, nq=1))
        out.append(Public(ls=[1, 2], types="cs", Ks=[1, 1], Ms=[1, 1], nq=2))
        out.append(Public(ls=[2], types="s", Ks=[2], Ms=[2], nq=1))
        out.append(Public(ls=[0, 1, 2], types="ccs", Ks=[1, 1, 1], Ms=[1, 1, 1], nq=1))
    return out


def main(tier="quick", seed=0, only=None):
    cs = cm.parse_only(cases(tier), only)
    bounds = {
        "angular_momenta": "block level: every ordered (la, lb) with la + lb <= 4 plus (5,0), (0,5) (quick) / <= 5 (thorough) at Level A; "
                           "the remaining pairs up to (5,5) at Level B (concrete exponents, everything else symbolic) in thorough",
        "charges": "1-2 point charges, symbolic position and symbolic charge (either sign); one case with the charge on a "
                   "centre and one with all centres coincident",
        "primitives": "K <= 2", "segments": "M <= 2",
        "outside": "numerical accuracy of scipy.special.hyp1f1 as Boys function (stubbed by its contract); rounding; K > 2",
    }
    assumptions = ["real-number semantics", "hyp1f1(m+1/2, m+3/2, -T) = (2m+1) F_m(T) with F_m an uninterpreted positive atom <= 1/(2m+1); F_m(0) = 1/(2m+1)",
                   "exponents > 0, coefficients != 0"]
    return run_property("C03", cs, tier, seed, ENCODED, bounds, assumptions, title="Point-charge / nuclear attraction exactness.")
