"""helpers shared by the per-property harnesses"""
import itertools
import os
import sys
from fractions import Fraction

import numpy as np

from refs import gauss as G
from refs import harmonics as H
from sx.harness import shell_spec, make_shell  # noqa: F401

LETTER = {"c": "cartesian", "s": "spherical"}

# Level-B exponent pool spanning the ranges the properties name (tight ... diffuse)
EXP_POOL = [Fraction(3, 2), Fraction(7, 10), Fraction(3, 10), Fraction(5, 1), Fraction(1, 50), Fraction(11, 4),
            Fraction(100000, 1), Fraction(2, 5), Fraction(13, 10), Fraction(9, 4)]


def nfun(l, t):
    return (l + 1) * (l + 2) // 2 if t == "c" else 2 * l + 1


def ref_two_index(ops, specs, types, prim_factory, normalise=True, extra_shape=None):
    """reference matrix for a symmetric two-index public integral.

    specs: list of shell specs; types: string of 'c'/'s' per shell; prim_factory(A, B) -> prim_fn
    returning a scalar (or a list of scalars for a trailing axis).  Function order: shell, segment,
    component.  Returns nested list [i][j] (scalars or lists)."""
    norms = []
    for s in specs:
        blk = G.contracted(ops, s, s, G.overlap_prim(ops, s["A"], s["A"]))
        M = len(s["coeffs"][0])
        nc = len(G.comps(s["l"]))
        norms.append([[1 / ops.sqrt(blk[m][c][m][c]) if normalise else ops.one for c in range(nc)] for m in range(M)])
    rows = []
    trans = [None if t == "c" else H.transformation(ops, s["l"], G.comps(s["l"]), H.default_sph_labels(s["l"]))
             for s, t in zip(specs, types)]
    blocks = {}
    for i, sa in enumerate(specs):
        for j, sb in enumerate(specs):
            blk = G.contracted(ops, sa, sb, prim_factory(sa["A"], sb["A"]))
            Ma, Mb = len(sa["coeffs"][0]), len(sb["coeffs"][0])
            ca, cb = len(G.comps(sa["l"])), len(G.comps(sb["l"]))
            # normalise
            nb = [[[[blk[ma][ia][mb][ib] * norms[i][ma][ia] * norms[j][mb][ib] for ib in range(cb)] for mb in range(Mb)]
                   for ia in range(ca)] for ma in range(Ma)]
            # transform
            if trans[i] is not None:
                T = trans[i]
                nb = [[[[_lin(ops, [(T[r][ia], nb[ma][ia][mb][ib]) for ia in range(ca)]) for ib in range(cb)]
                        for mb in range(Mb)] for r in range(len(T))] for ma in range(Ma)]
            if trans[j] is not None:
                T = trans[j]
                na = len(nb[0])
                nb = [[[[_lin(ops, [(T[r][ib], nb[ma][ia][mb][ib]) for ib in range(cb)]) for r in range(len(T))]
                        for mb in range(Mb)] for ia in range(na)] for ma in range(Ma)]
            blocks[(i, j)] = nb
    full = []
    for i, sa in enumerate(specs):
        for ma in range(len(sa["coeffs"][0])):
            for ia in range(nfun(sa["l"], types[i])):
                row = []
                for j, sb in enumerate(specs):
                    for mb in range(len(sb["coeffs"][0])):
                        for ib in range(nfun(sb["l"], types[j])):
                            row.append(blocks[(i, j)][ma][ia][mb][ib])
                full.append(row)
    return full


def _lin(ops, pairs):
    tot = ops.zero
    for c, v in pairs:
        if isinstance(v, list):
            if not isinstance(tot, list):
                tot = [ops.zero for _ in v]
            tot = [t + c * x for t, x in zip(tot, v)]
        else:
            tot = tot + c * v
    return tot


def specs_from(mk, p):
    """shell specs for the params ls / Ks / Ms; optional `share` {i: j}: shell i sits on the centre of the earlier shell j;
    optional `twin` {i: j}: shell i has the exponents and coefficients of the earlier shell j (a homonuclear pair);
    optional `icenter` [labels]: the book-keeping atom label of each shell (carries no geometric meaning)"""
    share, twin = p.get("share", {}), p.get("twin", {})
    specs = []
    for i, (l, K, M) in enumerate(zip(p["ls"], p["Ks"], p["Ms"])):
        coord = specs[share[str(i)]]["A"] if str(i) in share else None
        if str(i) in twin:
            t = specs[twin[str(i)]]
            tag = "ABCD"[i]
            s = dict(l=l, A=coord if coord is not None else [mk.var(f"{tag}{x}") for x in "xyz"], exps=t["exps"], coeffs=t["coeffs"], tag=tag)
        else:
            s = shell_spec(mk, "ABCD"[i], l, K, M, coord=coord)
        if p.get("icenter"):
            s = dict(s, icenter=p["icenter"][i])
        specs.append(s)
    return specs


def basis_from(mk, specs, types, normalise=True):
    return [make_shell(mk, s, LETTER[t], normalise=normalise) for s, t in zip(specs, types)]


def parse_only(cases, only):
    if only:
        cases = [c for c in cases if only in c.cid]
    return cases
