"""C12 - covariance under rigid motions (code vs code through the monomial representation matrices)"""
import itertools
from fractions import Fraction

import numpy as np

from refs import gauss as G
from refs import harmonics as H
from sx.harness import Case, run_property, shell_spec
from . import common as cm
from .c09 import NIDX
from .c10 import _cart_overlap
from . import c07 as _c07

ENCODED = [
    "gbasis.integrals._moment_int:_compute_multipole_moment_integrals_intermediate",
    "gbasis.integrals._diff_operator_int:_compute_differential_operator_integrals_intermediate",
    "gbasis.integrals._one_elec_int:_compute_one_elec_integrals",
    "gbasis.integrals._two_elec_int:_compute_two_elec_integrals",
    "gbasis.integrals.angular_momentum:AngularMomentumIntegral.construct_array_contraction",
    "gbasis.evals._deriv:_eval_deriv_contractions",
    "gbasis.spherical:generate_transformation",
    "gbasis.integrals.overlap:overlap_integral",
    "gbasis.integrals.moment:moment_integral",
    "gbasis.integrals.point_charge:point_charge_integral",
    "gbasis.integrals.electron_repulsion:electron_repulsion_integral",
    "gbasis.evals.eval_deriv:evaluate_deriv_basis",
]

VEC = [[1, 0, 0], [0, 1, 0], [0, 0, 1]]
SIGNED_PERMS = [(p, s) for p in itertools.permutations(range(3)) for s in itertools.product([1, -1], repeat=3)]


def _call(name, basis, G0, mk):
    """G0: geometry dict with P (points), C (origin / charge position), q"""
    if name == "overlap":
        from gbasis.integrals.overlap import overlap_integral
        return overlap_integral(basis)
    if name == "kinetic":
        from gbasis.integrals.kinetic_energy import kinetic_energy_integral
        return kinetic_energy_integral(basis)
    if name == "dipole":
        from gbasis.integrals.moment import moment_integral
        return moment_integral(basis, mk.array(G0["C"]), np.array(VEC, dtype=int))
    if name == "quadrupole":
        from gbasis.integrals.moment import moment_integral
        six = [[2, 0, 0], [1, 1, 0], [1, 0, 1], [0, 2, 0], [0, 1, 1], [0, 0, 2]]
        M = np.asarray(moment_integral(basis, mk.array(G0["C"]), np.array(six, dtype=int))).view(np.ndarray)
        idx = {(0, 0): 0, (0, 1): 1, (0, 2): 2, (1, 1): 3, (1, 2): 4, (2, 2): 5}
        out = np.empty(M.shape[:2] + (3, 3), dtype=object)
        for i in range(3):
            for j in range(3):
                out[:, :, i, j] = M[:, :, idx[(min(i, j), max(i, j))]]
        return out
    if name == "d3":
        from gbasis.evals.eval_deriv import evaluate_deriv_basis
        cache = {}
        out = None
        for i in range(3):
            for j in range(3):
                for k in range(3):
                    o = [0, 0, 0]
                    for ax in (i, j, k):
                        o[ax] += 1
                    key = tuple(o)
                    if key not in cache:
                        cache[key] = np.asarray(evaluate_deriv_basis(basis, mk.array([G0["P"]]), np.array(o))).view(np.ndarray)[:, 0]
                    if out is None:
                        out = np.empty((len(cache[key]), 3, 3, 3), dtype=object)
                    out[:, i, j, k] = cache[key]
        return out
    if name == "momentum":
        from gbasis.integrals.momentum import momentum_integral
        return momentum_integral(basis)
    if name == "angmom":
        from gbasis.integrals.angular_momentum import angular_momentum_integral
        return angular_momentum_integral(basis)
    if name == "point_charge":
        from gbasis.integrals.point_charge import point_charge_integral
        return point_charge_integral(basis, mk.array([G0["C"]]), mk.array(G0["q"]))[:, :, 0]
    if name == "eri":
        from gbasis.integrals.electron_repulsion import electron_repulsion_integral
        return electron_repulsion_integral(basis, notation="chemist")
    if name == "eval":
        from gbasis.evals.eval import evaluate_basis
        return evaluate_basis(basis, mk.array([G0["P"]]))[:, 0]
    if name == "grad":
        from gbasis.evals.eval_deriv import evaluate_deriv_basis
        cols = [evaluate_deriv_basis(basis, mk.array([G0["P"]]), np.array(o))[:, 0] for o in VEC]
        return np.stack([np.asarray(c).view(np.ndarray) for c in cols], axis=-1)
    if name in FIELDS:
        import gbasis.evals.density as dn
        import gbasis.evals.stress_tensor as st
        Pm, pts = mk.array(G0["Pm"]), mk.array([G0["P"]])
        if name == "dgrad":
            return dn.evaluate_density_gradient(Pm, basis, pts)[0]
        if name == "lap":
            return np.asarray(dn.evaluate_density_laplacian(Pm, basis, pts)).view(np.ndarray)[0:1]
        if name == "dhess":
            return dn.evaluate_density_hessian(Pm, basis, pts)[0]
        if name == "stress":
            return st.evaluate_stress_tensor(Pm, basis, pts, alpha=0.5, beta=1)[0]
        if name == "force":
            return st.evaluate_ehrenfest_force(Pm, basis, pts, alpha=0.5, beta=1)[0]
    raise KeyError(name)


# scalar / vector / tensor fields built from a density matrix (no basis index left): the density matrix of the moved
# system is the free symbol P', the original system carries P = D^T P' D
FIELDS = {"dgrad": "vector", "lap": "scalar", "dhess": "tensor2", "stress": "tensor2", "force": "vector"}

KIND = {"d3": "tensor3", "quadrupole": "tensor2", "overlap": "scalar", "kinetic": "scalar", "dipole": "vector", "momentum": "vector", "angmom": "pseudo",
        "point_charge": "scalar", "eri": "scalar", "eval": "scalar", "grad": "vector"}
KIND.update(FIELDS)
NIX = {"d3": 1, "quadrupole": 2, "overlap": 2, "kinetic": 2, "dipole": 2, "momentum": 2, "angmom": 2, "point_charge": 2, "eri": 4, "eval": 1, "grad": 1}
NIX.update({k: 0 for k in FIELDS})


def rep_matrix(ops, l, R):
    """M[a][a'] with  phi_a(R u) = sum_a' M[a][a'] phi_a'(u)  for normalised Cartesian components of degree l"""
    cs = G.comps(l)
    rows = []
    for a in cs:
        poly = {(0, 0, 0): ops.one}
        for i in range(3):
            lin = {}
            for j in range(3):
                e = [0, 0, 0]
                e[j] = 1
                lin[tuple(e)] = R[i][j]
            for _ in range(a[i]):
                new = {}
                for k1, v1 in poly.items():
                    for k2, v2 in lin.items():
                        k = (k1[0] + k2[0], k1[1] + k2[1], k1[2] + k2[2])
                        new[k] = new.get(k, ops.zero) + v1 * v2
                poly = new
        row = []
        for b in cs:
            c = poly.get(b, ops.zero)
            ratio = Fraction(G.df(2 * b[0] - 1) * G.df(2 * b[1] - 1) * G.df(2 * b[2] - 1),
                             G.df(2 * a[0] - 1) * G.df(2 * a[1] - 1) * G.df(2 * a[2] - 1))
            row.append(c * ops.sqrt(ops.const(ratio)))
        rows.append(row)
    return rows


def full_rep(ops, specs, types, R):
    """block-diagonal representation matrix over the whole basis (spherical shells: W M S W^T)"""
    n = sum(cm.nfun(s["l"], t) * len(s["coeffs"][0]) for s, t in zip(specs, types))
    D = np.empty((n, n), dtype=object)
    D.fill(ops.zero)
    off = 0
    for s, t in zip(specs, types):
        l = s["l"]
        M = np.array(rep_matrix(ops, l, R), dtype=object)
        if t == "s":
            cs = G.comps(l)
            W = np.array(H.transformation(ops, l, cs, H.default_sph_labels(l)), dtype=object)
            S = np.array([[_cart_overlap(ops, a, b) for b in cs] for a in cs], dtype=object)
            M = np.dot(np.dot(np.dot(W, M), S), W.T)
        k = M.shape[0]
        for m in range(len(s["coeffs"][0])):
            D[off:off + k, off:off + k] = M
            off += k
    return D


def _rot(mk, p):
    """orthogonal matrix R and translation d for the motion"""
    mo = p["motion"]
    one, zero = mk.const(1), mk.const(0)
    if mo[0] == "trans":
        R = [[one if i == j else zero for j in range(3)] for i in range(3)]
        d = [mk.var("d" + x) for x in "xyz"]
        return R, d, 1
    if mo[0] == "perm":
        perm, signs = mo[1], mo[2]
        R = [[zero] * 3 for _ in range(3)]
        for i in range(3):
            R[i][perm[i]] = mk.const(signs[i])
        par = 1
        pl = list(perm)
        for i in range(3):
            for j in range(i + 1, 3):
                if pl[i] > pl[j]:
                    par = -par
        det = par * signs[0] * signs[1] * signs[2]
        d = [zero] * 3 if not p.get("shift") else [mk.var("d" + x) for x in "xyz"]
        return R, d, det
    if mo[0] in ("rot", "rotq"):
        axis = mo[1]
        t = mk.var("t") if mo[0] == "rot" else mk.const(Fraction(mo[2], mo[3]))
        c = (1 - t * t) / (1 + t * t)
        s = 2 * t / (1 + t * t)
        i, j, k = axis, (axis + 1) % 3, (axis + 2) % 3
        R = [[zero] * 3 for _ in range(3)]
        R[i][i] = one
        R[j][j], R[j][k], R[k][j], R[k][k] = c, -s, s, c
        return R, [zero] * 3, 1
    if mo[0] == "quat":
        # general proper rotation from a unit quaternion (a, b, c, d) / |q|
        a, b, c, d = [mk.var("q" + x) for x in "abcd"]
        n = a * a + b * b + c * c + d * d
        R = [[(a * a + b * b - c * c - d * d) / n, 2 * (b * c - a * d) / n, 2 * (b * d + a * c) / n],
             [2 * (b * c + a * d) / n, (a * a - b * b + c * c - d * d) / n, 2 * (c * d - a * b) / n],
             [2 * (b * d - a * c) / n, 2 * (c * d + a * b) / n, (a * a - b * b - c * c + d * d) / n]]
        return R, [zero] * 3, 1
    raise KeyError(mo)


def _apply(R, d, v):
    return [R[i][0] * v[0] + R[i][1] * v[1] + R[i][2] * v[2] + d[i] for i in range(3)]


class Motion(Case):
    """module(moved system) == D (x) ... (x) D . [R on vector components] . module(original system)"""

    prop = "C12"
    canary_scale = "Ae0"
    rtol = 1e-7
    query_timeout = 60000
    unify_timeout = 40000

    def inputs(self, mk):
        p = self.params
        specs = cm.specs_from(mk, p)
        R, d, det = _rot(mk, p)
        Pm = None
        if p["module"] in FIELDS:
            from .c06 import sym_matrix
            n = sum(cm.nfun(l, t) * M for l, t, M in zip(p["ls"], p["types"], p["Ms"]))
            Pm = sym_matrix(mk, n, name="W")
        return dict(specs=specs, R=R, d=d, det=det, C=[mk.var("C" + x) for x in "xyz"], P=[mk.var("P" + x) for x in "xyz"],
                    q=[mk.var("q0")], Pm=Pm)

    def code(self, I, mk):
        p = self.params
        R, d = I["R"], I["d"]
        moved = [dict(s, A=_apply(R, d, s["A"])) for s in I["specs"]]
        G1 = dict(C=_apply(R, d, I["C"]), P=_apply(R, d, I["P"]), q=I["q"], Pm=I["Pm"])
        basis = cm.basis_from(mk, moved, p["types"])
        return {"A": _call(p["module"], basis, G1, mk)}

    def ref(self, I, ops, mk):
        p = self.params
        mod = p["module"]
        basis = cm.basis_from(mk, I["specs"], p["types"])
        G0 = dict(C=I["C"], P=I["P"], q=I["q"])
        D = full_rep(ops, I["specs"], p["types"], I["R"])
        if mod in FIELDS:
            G0["Pm"] = np.dot(np.dot(D.T, np.array(I["Pm"], dtype=object)), D)
        A = np.asarray(_call(mod, basis, G0, mk)).view(np.ndarray)
        if A.dtype != object:
            A = A.astype(object)
        if mod == "angmom" and p["motion"][0] in ("trans",) or (mod == "angmom" and p.get("shift")):
            # L' = R L + d x (R p)
            Pm = np.asarray(_call("momentum", basis, G0, mk)).view(np.ndarray)
        for ax in range(NIX[mod]):
            A = np.moveaxis(np.tensordot(D, A, (1, ax)), 0, ax)
        kind = KIND[mod]
        if kind == "tensor3":
            Rm = np.array(I["R"], dtype=object)
            for _ in range(3):
                A = np.tensordot(A, Rm, (A.ndim - 3, 1))
        if kind == "tensor2":
            Rm = np.array(I["R"], dtype=object)
            A = np.tensordot(A, Rm, (A.ndim - 2, 1))   # (..., j, i')
            A = np.tensordot(A, Rm, (A.ndim - 2, 1))   # (..., i', j')
        if kind in ("vector", "pseudo"):
            Rm = np.array(I["R"], dtype=object)
            A = np.tensordot(A, Rm, (A.ndim - 1, 1))
            if kind == "pseudo" and I["det"] == -1:
                A = A * (-1)
        if mod == "angmom" and (p["motion"][0] == "trans" or p.get("shift")):
            for ax in range(2):
                Pm = np.moveaxis(np.tensordot(D, Pm, (1, ax)), 0, ax)
            Pm = np.tensordot(Pm, np.array(I["R"], dtype=object), (2, 1))
            d = I["d"]
            cross = np.empty(Pm.shape, dtype=object)
            cross[..., 0] = d[1] * Pm[..., 2] - d[2] * Pm[..., 1]
            cross[..., 1] = d[2] * Pm[..., 0] - d[0] * Pm[..., 2]
            cross[..., 2] = d[0] * Pm[..., 1] - d[1] * Pm[..., 0]
            A = A + cross
        return {"A": A}


class RepClosed(Case):
    """the solid-harmonic space is closed under the motion: W M == D W (ground / one-parameter identity)"""

    prop = "C12"
    canary_scale = None
    run_canary = False
    conformance = False

    def inputs(self, mk):
        R, d, det = _rot(mk, self.params)
        return dict(R=R, mk=mk)

    def _ops(self, mk):
        from sx import harness
        return harness._symops(mk.ctx) if mk.symbolic else G.FloatOps

    def code(self, I, mk):
        from gbasis.spherical import generate_transformation

        l = self.params["l"]
        ops = self._ops(mk)
        cs = G.comps(l)
        W = np.asarray(generate_transformation(l, np.array(cs), tuple(H.default_sph_labels(l)), "left")).view(np.ndarray).astype(object)
        M = np.array(rep_matrix(ops, l, I["R"]), dtype=object)
        return {"WM": np.dot(W, M)}

    def ref(self, I, ops, mk):
        from gbasis.spherical import generate_transformation

        l = self.params["l"]
        cs = G.comps(l)
        W = np.asarray(generate_transformation(l, np.array(cs), tuple(H.default_sph_labels(l)), "left")).view(np.ndarray).astype(object)
        M = np.array(rep_matrix(ops, l, I["R"]), dtype=object)
        S = np.array([[_cart_overlap(ops, a, b) for b in cs] for a in cs], dtype=object)
        D = np.dot(np.dot(np.dot(W, M), S), W.T)
        return {"WM": np.dot(D, W)}


class OriginShift(_c07.Shift):
    """moments shift binomially when only the origin moves and the basis stays where it is (the last sentence of the
    property): M_e(C + d) = sum_k binom(e,k) (-d)^(e-k) M_k(C) with symbolic C and d; both calls are made on the same
    shells in one interpreter, one after the other (seed C12e: a table memoised without the origin in its key)"""

    prop = "C12"


def cases(tier, seed=0):
    out = []
    out.append(OriginShift(ls=[1, 0], types="cc", Ks=[1, 1], Ms=[1, 1], order=[2, 1, 0]))
    out.append(OriginShift(ls=[0, 1], types="cs", Ks=[1, 1], Ms=[1, 2], order=[1, 0, 1]))
    if tier == "thorough":
        out.append(OriginShift(ls=[2, 1], types="sc", Ks=[1, 1], Ms=[1, 1], order=[0, 2, 1]))
    mods = ["overlap", "kinetic", "dipole", "momentum", "angmom", "point_charge", "eval", "grad"]
    two = dict(ls=[1, 2], types="cc", Ks=[1, 1], Ms=[1, 1])
    mix = dict(ls=[2, 1], types="sc", Ks=[1, 1], Ms=[1, 2])
    # translations
    for mod in mods:
        out.append(Motion(module=mod, motion=["trans"], **two))
    out.append(Motion(module="eri", motion=["trans"], ls=[1, 0], types="cc", Ks=[1, 1], Ms=[1, 1]))
    sp = dict(ls=[0, 1], types="cc", Ks=[1, 1], Ms=[1, 2])
    out.append(Motion(module="quadrupole", motion=["trans"], **sp))
    for axis in range(3):
        out.append(Motion(module="quadrupole", motion=["rot", axis], **sp))
        out.append(Motion(module="quadrupole", motion=["rotq", axis, 1, 2], ls=[1, 2], types="cc", Ks=[1, 1], Ms=[1, 1]))
    for idx in (1, 10, 21, 30, 47):
        perm, signs = SIGNED_PERMS[idx]
        out.append(Motion(module="quadrupole", motion=["perm", list(perm), list(signs)], **sp))
    # third derivatives of the basis functions as a rank-3 tensor
    out.append(Motion(module="d3", motion=["trans"], **sp))
    for axis in range(3):
        out.append(Motion(module="d3", motion=["rotq", axis, 1, 2 + axis], **sp))
    out.append(Motion(module="d3", motion=["rot", 2], ls=[0, 1], types="cc", Ks=[1, 1], Ms=[1, 1]))
    perm, signs = SIGNED_PERMS[13]
    out.append(Motion(module="d3", motion=["perm", list(perm), list(signs)], **sp))
    out.append(Motion(module="overlap", motion=["trans"], **mix))
    # fields built from a (non-idempotent, symbolic) density matrix: gradient, Laplacian, Hessian, stress tensor, force
    s_p = dict(ls=[0, 1], types="cc", Ks=[1, 1], Ms=[1, 1])
    for k, fld in enumerate(FIELDS):
        out.append(Motion(module=fld, motion=["trans"], **s_p))
        out.append(Motion(module=fld, motion=["rot", k % 3], **s_p))
        perm, signs = SIGNED_PERMS[5 + 9 * k]
        out.append(Motion(module=fld, motion=["perm", list(perm), list(signs)], ls=[1, 2], types="sc", Ks=[1, 1], Ms=[1, 1]))
        out.append(Motion(module=fld, motion=["rotq", (k + 1) % 3, 1, 2], ls=[1, 1], types="sc", Ks=[1, 1], Ms=[1, 1]))
    # all 48 signed axis permutations
    for idx, (perm, signs) in enumerate(SIGNED_PERMS):
        mo = ["perm", list(perm), list(signs)]
        if tier == "thorough":
            sel = mods
        else:
            sel = [mods[idx % len(mods)], mods[(idx * 3 + 1) % len(mods)]]
        for mod in sel:
            out.append(Motion(module=mod, motion=mo, **(two if (idx + len(mod)) % 2 else mix)))
        if idx % (6 if tier == "quick" else 2) == 0:
            out.append(Motion(module="eri", motion=mo, ls=[1, 0], types="cc" if idx % 4 else "sc", Ks=[1, 1], Ms=[1, 1]))
        if idx % 8 == 3:
            out.append(Motion(module="angmom", motion=mo, shift=True, **two))
    # proper rotations about each axis with a symbolic angle (t = tan(theta/2))
    for axis in range(3):
        for mod in mods:
            if tier == "quick" and (axis + len(mod)) % 3:
                continue
            if mod == "point_charge":
                # symbolic angle only for (p, s); for d shells a fixed Pythagorean rotation (cos, sin) = (3/5, 4/5) or (5/13, 12/13)
                out.append(Motion(module=mod, motion=["rot", axis], ls=[1, 0], types="cc", Ks=[1, 1], Ms=[1, 1]))
                out.append(Motion(module=mod, motion=["rotq", axis, 1 + axis % 2, 2 + axis % 2], ls=[1, 1], types="cc", Ks=[1, 1], Ms=[1, 1]))
                if tier == "thorough":
                    # d shells: the same-centre (d|d) block is at the edge of what the solver finishes in 60 s
                    out.append(Motion(module=mod, motion=["rotq", axis, 1 + axis % 2, 2 + axis % 2], **two))
                continue
            out.append(Motion(module=mod, motion=["rot", axis], **two))
        if tier == "thorough":
            out.append(Motion(module="overlap", motion=["rot", axis], **mix))
        out.append(Motion(module="overlap", motion=["rot", axis], ls=[1, 1], types="sc", Ks=[1, 1], Ms=[1, 2]))
        out.append(Motion(module="eri", motion=["rot", axis], ls=[1, 0], types="cc", Ks=[1, 1], Ms=[1, 1]))
        for l in range(1, 4 if tier == "quick" else 5):
            out.append(RepClosed(l=l, motion=["rot", axis]))
    for idx, (perm, signs) in enumerate(SIGNED_PERMS):
        if idx % 5 == 0:
            out.append(RepClosed(l=2 + idx % 2, motion=["perm", list(perm), list(signs)]))
    if tier == "thorough":
        for axis in range(3):
            out.append(Motion(module="overlap", motion=["rot", axis], ls=[3, 1], types="cc", Ks=[1, 1], Ms=[1, 1]))
            out.append(Motion(module="eval", motion=["rot", axis], ls=[3, 2], types="cs", Ks=[1, 1], Ms=[1, 1]))
        # general rotation from a quaternion, l <= 1
        for mod in ("overlap", "momentum", "eval", "point_charge"):
            out.append(Motion(module=mod, motion=["quat"], ls=[1, 0], types="cc", Ks=[1, 1], Ms=[1, 1]))
        out.append(RepClosed(l=1, motion=["quat"]))
        out.append(RepClosed(l=2, motion=["quat"]))
    return out


def main(tier="quick", seed=0, only=None):
    cs = cm.parse_only(cases(tier, seed), only)
    bounds = {
        "motions": "all translations (symbolic vector); all 48 signed axis permutations (enumerated; quick: 2 of 8 modules each, thorough: all); "
                   "rotations about each coordinate axis with symbolic angle (rational parametrisation, every angle except pi); thorough: general "
                   "rotation from a symbolic quaternion for l <= 1",
        "modules": "overlap, kinetic, dipole and second (rank-2 tensor) moments about a co-moving origin, momentum, angular momentum (incl. the d x p shift law), "
                   "moments about a shifted origin with the basis held fixed (binomial law, symbolic origin and shift, orders up to (2,1,0); both calls in one interpreter), "
                   "point charge, ERI (l <= 1), function values and gradients; Cartesian and mixed Cartesian/spherical 2-shell bases, l <= 2 (3 thorough)",
        "outside": "general 3-parameter rotations for l >= 2; density / stress-tensor level invariants (follow from these by linear algebra, not checked here)",
    }
    assumptions = ["real-number semantics", "spherical representation D = W M S W^T uses orthonormality (C10) and W M = D W, which is itself checked (RepClosed)"]
    return run_property("C12", cs, tier, seed, ENCODED, bounds, assumptions, title="Rigid-motion covariance.")
