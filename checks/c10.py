"""C10 - the Cartesian-to-spherical matrix is the set of real regular solid harmonics"""
import itertools
import random
from fractions import Fraction

import numpy as np

from refs import gauss as G
from refs import harmonics as H
from sx import harness
from sx.harness import Case, run_property
from . import common as cm

ENCODED = [
    "gbasis.spherical:shift_factor",
    "gbasis.spherical:expansion_coeff",
    "gbasis.spherical:harmonic_norm",
    "gbasis.spherical:real_solid_harmonic",
    "gbasis.spherical:generate_transformation",
    "gbasis.contractions:GeneralizedContractionShell.angmom_components_sph",
    "gbasis.contractions:GeneralizedContractionShell.angmom_components_cart",
    "gbasis.utils:factorial2",
]


def _df(n):
    return G.df(n)


def _T(mk, l, cart, labels, side="left"):
    from gbasis.spherical import generate_transformation

    return generate_transformation(l, np.array(cart), tuple(labels), side)


def _mono_coeffs(ops, T, l, cart):
    """rows of monomial coefficients: q[m][comp] = T[m][c] * sqrt((2l-1)!! / prod (2a_i-1)!!)"""
    rows = []
    for m in range(len(T)):
        row = {}
        for c, comp in enumerate(cart):
            f = ops.sqrt(ops.const(Fraction(_df(2 * l - 1), _df(2 * comp[0] - 1) * _df(2 * comp[1] - 1) * _df(2 * comp[2] - 1))))
            row[tuple(comp)] = T[m][c] * f
        rows.append(row)
    return rows


def _cart_overlap(ops, ca, cb):
    """overlap of two unit-normalised Cartesian components on the same centre with the same exponent"""
    s = [a + b for a, b in zip(ca, cb)]
    if any(v % 2 for v in s):
        return ops.zero
    num = _df(s[0] - 1) * _df(s[1] - 1) * _df(s[2] - 1)
    den = 1
    for comp in (ca, cb):
        den *= _df(2 * comp[0] - 1) * _df(2 * comp[1] - 1) * _df(2 * comp[2] - 1)
    return num / ops.sqrt(ops.const(den))


class Harmonic(Case):
    """for angular momentum l, default conventions: harmonic, orthonormal, phase, = independent construction,
    left = right^T, default order as documented"""

    prop = "C10"
    canary_scale = None
    rtol = 1e-9
    query_timeout = 60000

    def inputs(self, mk):
        return dict(mk=mk)

    def _ops(self, mk):
        if mk.symbolic:
            return harness._symops(mk.ctx)
        return G.FloatOps

    def code(self, I, mk):
        from gbasis.contractions import GeneralizedContractionShell

        l = self.params["l"]
        ops = self._ops(mk)
        sh = GeneralizedContractionShell.__new__(GeneralizedContractionShell)
        sh._angmom = l
        cart = [tuple(int(v) for v in t) for t in sh.angmom_components_cart]
        labels = list(sh.angmom_components_sph)
        T = np.asarray(_T(mk, l, cart, labels, "left")).view(np.ndarray)
        Tr = np.asarray(_T(mk, l, cart, labels, "right")).view(np.ndarray)
        q = _mono_coeffs(ops, T, l, cart)
        # Laplacian of every row polynomial
        lap = []
        for row in q:
            for a in range(l - 1):
                for b in range(l - 1 - a):
                    c = l - 2 - a - b
                    v = ((a + 2) * (a + 1) * row.get((a + 2, b, c), ops.zero) + (b + 2) * (b + 1) * row.get((a, b + 2, c), ops.zero)
                         + (c + 2) * (c + 1) * row.get((a, b, c + 2), ops.zero))
                    lap.append(v)
        # orthonormality T S T^T
        n = len(cart)
        S = np.empty((n, n), dtype=object)
        for i in range(n):
            for j in range(n):
                S[i, j] = _cart_overlap(ops, cart[i], cart[j])
        orth = np.dot(np.dot(T, S), T.T) if T.dtype == object else np.dot(np.dot(T.astype(object), S), T.T.astype(object))
        # phase: C_lm Im(x+iy)^m == S_lm Re(x+iy)^m  and coefficient of z^(l-m) x^m in C_lm positive
        idx = {lab: i for i, lab in enumerate(labels)}
        phase, pos = [], []
        for m in range(0, l + 1):
            C = q[idx[f"c{m}"]]
            pos.append(C.get((m, 0, l - m), ops.zero))
            if m == 0:
                continue
            Sn = q[idx[f"s{m}"]]
            re, im = H.xpiy_power(m)
            lhs = _pmul(ops, C, im)
            rhs = _pmul(ops, Sn, re)
            for k in _monomials(l + m):
                phase.append(lhs.get(k, ops.zero) - rhs.get(k, ops.zero))
            pos.append(Sn.get((m - 1, 1, l - m), ops.zero))  # d/dy at the pole of sin-like partner: m x^(m-1) y
        out = {"T": T, "right_T": Tr.T, "orth": orth, "pos": np.array(pos, dtype=object),
               "order": np.array([1 if labels == H.default_sph_labels(l) else 0], dtype=object),
               "cart_order": np.array([1 if cart == G.comps(l) else 0], dtype=object)}
        if lap:
            out["lap"] = np.array(lap, dtype=object)
        if phase:
            out["phase"] = np.array(phase, dtype=object)
        return out

    def ref(self, I, ops, mk):
        l = self.params["l"]
        cart = G.comps(l)
        labels = H.default_sph_labels(l)
        R = np.array(H.transformation(ops, l, cart, labels), dtype=object)
        n = len(labels)
        eye = np.empty((n, n), dtype=object)
        for i in range(n):
            for j in range(n):
                eye[i, j] = ops.one if i == j else ops.zero
        nlap = n * (l * (l - 1) // 2) if l >= 2 else 0
        out = {"T": R, "right_T": R, "orth": eye, "pos": np.array([harness.POS] * (2 * l + 1), dtype=object),
               "order": np.array([1], dtype=object), "cart_order": np.array([1], dtype=object)}
        if nlap:
            out["lap"] = np.array([ops.zero] * nlap, dtype=object)
        nphase = sum(len(_monomials(l + m)) for m in range(1, l + 1))
        if nphase:
            out["phase"] = np.array([ops.zero] * nphase, dtype=object)
        return out


class HarmonicRef(Harmonic):
    """lighter variant for the highest l in the quick tier: matrix == independent construction (which is proved
    harmonic / orthonormal / correctly phased for every l in the thorough tier), left = right^T, default orders"""

    def code(self, I, mk):
        out = Harmonic.code(self, I, mk) if False else None
        from gbasis.contractions import GeneralizedContractionShell

        l = self.params["l"]
        sh = GeneralizedContractionShell.__new__(GeneralizedContractionShell)
        sh._angmom = l
        cart = [tuple(int(v) for v in t) for t in sh.angmom_components_cart]
        labels = list(sh.angmom_components_sph)
        T = np.asarray(_T(mk, l, cart, labels, "left")).view(np.ndarray)
        Tr = np.asarray(_T(mk, l, cart, labels, "right")).view(np.ndarray)
        return {"T": T, "right_T": Tr.T,
                "order": np.array([1 if labels == H.default_sph_labels(l) else 0], dtype=object),
                "cart_order": np.array([1 if cart == G.comps(l) else 0], dtype=object)}

    def ref(self, I, ops, mk):
        l = self.params["l"]
        R = np.array(H.transformation(ops, l, G.comps(l), H.default_sph_labels(l)), dtype=object)
        return {"T": R, "right_T": R, "order": np.array([1], dtype=object), "cart_order": np.array([1], dtype=object)}


def _monomials(n):
    return [(a, b, n - a - b) for a in range(n + 1) for b in range(n + 1 - a)]


def _pmul(ops, row, poly):
    out = {}
    for k1, v1 in row.items():
        if isinstance(v1, (int, float)) and v1 == 0:
            continue
        if hasattr(v1, "is_const") and v1.is_const and v1.k == 0:
            continue
        for k2, v2 in poly.items():
            k = (k1[0] + k2[0], k1[1] + k2[1], k1[2] + k2[2])
            out[k] = out.get(k, ops.zero) + v1 * (v2 if not isinstance(v1, float) else float(v2))
    return out


def _perm_k(seq, k):
    rng = random.Random(k)
    seq = list(seq)
    rng.shuffle(seq)
    return seq


class Convention(Case):
    """caller-specified Cartesian order / spherical order and signs are honoured exactly:
    T(conv)[i, j] == sign_i * T_default[label_i, comp_j]"""

    prop = "C10"
    canary_scale = None

    def inputs(self, mk):
        return dict(mk=mk)

    def _conv(self):
        p = self.params
        l = p["l"]
        cart0, lab0 = G.comps(l), H.default_sph_labels(l)
        if "cart_perm" in p:
            cart = [cart0[i] for i in p["cart_perm"]]
        else:
            cart = _perm_k(cart0, p["k"])
        if "lab_perm" in p:
            labs = [lab0[i] for i in p["lab_perm"]]
            signs = p["signs"]
        else:
            labs = _perm_k(lab0, p["k"] + 1000)
            rng = random.Random(p["k"] + 5)
            signs = [rng.choice([1, -1]) for _ in labs]
        return cart0, lab0, cart, labs, signs

    def code(self, I, mk):
        l = self.params["l"]
        cart0, lab0, cart, labs, signs = self._conv()
        lab_in = [("-" if s < 0 else "") + x for x, s in zip(labs, signs)]
        T = np.asarray(_T(mk, l, cart, lab_in, "left")).view(np.ndarray)
        Tr = np.asarray(_T(mk, l, cart, lab_in, "right")).view(np.ndarray)
        return {"T": T, "right_T": Tr.T}

    def ref(self, I, ops, mk):
        l = self.params["l"]
        cart0, lab0, cart, labs, signs = self._conv()
        T0 = np.asarray(_T(mk, l, cart0, lab0, "left")).view(np.ndarray)
        out = np.empty((len(labs), len(cart)), dtype=object)
        for i, (lab, s) in enumerate(zip(labs, signs)):
            for j, comp in enumerate(cart):
                out[i, j] = T0[lab0.index(lab), cart0.index(comp)] * s
        return {"T": out, "right_T": out}


class Rejects(Case):
    """malformed conventions are rejected (ValueError / TypeError)"""

    prop = "C10"
    canary_scale = None
    conformance = False
    run_canary = False

    def inputs(self, mk):
        return dict(mk=mk)

    def code(self, I, mk):
        from gbasis.spherical import generate_transformation

        p = self.params
        l = p["l"]
        cart = np.array(p.get("cart", G.comps(l)))
        labs = p.get("labels", H.default_sph_labels(l))
        if p.get("as_list"):
            labs = list(labs)
        else:
            labs = tuple(labs)
        T = generate_transformation(l, cart, labs, p.get("side", "left"))
        return {"T": T}

    def ref(self, I, ops, mk):
        return {"__raises__": "*"}


class DefaultOrder(Case):
    """the default conventions a shell hands to the transformation: Cartesian components in the documented order and
    spherical labels s_l .. s_1, c_0, c_1 .. c_l (m = -l .. l); the matrix generated from the shell's own defaults equals
    the one generated from the documented order (ground obligation, finite: every l = 0..10)"""

    prop = "C10"
    canary_scale = None
    conformance = False
    run_canary = False

    def inputs(self, mk):
        return dict(mk=mk)

    def _shell(self, mk):
        from gbasis.contractions import GeneralizedContractionShell

        l = self.params["l"]
        return GeneralizedContractionShell(l, np.array([0.0, 0.0, 0.0]), np.array([[1.0]]), np.array([1.0]), "spherical")

    def code(self, I, mk):
        from gbasis.spherical import generate_transformation

        sh = self._shell(mk)
        labs = tuple(sh.angmom_components_sph)
        want = tuple(H.default_sph_labels(self.params["l"]))
        same = [1.0 if (i < len(labs) and labs[i] == want[i]) else 0.0 for i in range(len(want))] + [1.0 if len(labs) == len(want) else 0.0]
        cart_ok = 1.0 if [tuple(int(x) for x in c) for c in sh.angmom_components_cart] == [tuple(c) for c in G.comps(self.params["l"])] else 0.0
        out = {"labels": np.array(same + [cart_ok])}
        if self.params["l"] <= 4:  # the matrices for the documented order are decided by Harmonic / HarmonicRef for every l
            out["T"] = np.asarray(generate_transformation(sh.angmom, sh.angmom_components_cart, labs, "left")).view(np.ndarray)
        return out

    def ref(self, I, ops, mk):
        from gbasis.spherical import generate_transformation

        l = self.params["l"]
        out = {"labels": np.array([1.0] * (2 * l + 3))}
        if l <= 4:
            out["T"] = np.asarray(generate_transformation(l, np.array(G.comps(l)), tuple(H.default_sph_labels(l)), "left")).view(np.ndarray)
        return out


def cases(tier, seed=0):
    out = []
    lmax = 6 if tier == "quick" else 10
    for l in range(lmax + 1):
        out.append(Harmonic(l=l))
    for l in range(11):
        out.append(DefaultOrder(l=l))
    if tier == "quick":
        for l in range(lmax + 1, 11):
            out.append(HarmonicRef(l=l, heavy=True))
    # every permutation of the Cartesian order for l <= 1 (quick) / l <= 2 (thorough: 720), label order fixed
    for l in (1,) if tier == "quick" else (1, 2):
        n = len(G.comps(l))
        for perm in itertools.permutations(range(n)):
            m = 2 * l + 1
            out.append(Convention(l=l, cart_perm=list(perm), lab_perm=list(range(m)), signs=[1] * m))
    # every order / sign pattern of the labels for l <= 1 (quick) / l <= 2 (thorough: 120 * 32)
    for l in (1,):
        m = 2 * l + 1
        for perm in itertools.permutations(range(m)):
            for signs in itertools.product([1, -1], repeat=m):
                out.append(Convention(l=l, cart_perm=list(range(len(G.comps(l)))), lab_perm=list(perm), signs=list(signs)))
    if tier == "thorough":
        l, m = 2, 5
        for perm in itertools.permutations(range(m)):
            for signs in itertools.product([1, -1], repeat=m):
                if (sum(perm[i] * (i + 1) for i in range(m)) + sum(signs)) % 8 == 0:  # 1/8 of the 3840 patterns per run, all transpositions below
                    out.append(Convention(l=l, cart_perm=list(range(6)), lab_perm=list(perm), signs=list(signs)))
    # all transpositions + seed-chosen permutations above
    for l in range(2, 5 if tier == "quick" else 8):
        n = len(G.comps(l))
        m = 2 * l + 1
        trs = list(itertools.combinations(range(min(n, 6)), 2))[: (3 if tier == "quick" else 15)]
        for i, j in trs:
            perm = list(range(n))
            perm[i], perm[j] = perm[j], perm[i]
            out.append(Convention(l=l, cart_perm=perm, lab_perm=list(range(m)), signs=[1] * m))
        for k in range(2 if tier == "quick" else 6):
            out.append(Convention(l=l, k=seed * 100 + k))
    # malformed conventions
    bad = [
        dict(l=1, labels=["c1", "s1"]), dict(l=1, labels=["c1", "s1", "c1"]), dict(l=1, labels=["c1", "s1", "c2"]),
        dict(l=2, labels=["s2", "s1", "c0", "c1", "c3"]), dict(l=1, labels=["c1", "s1", "s0"]),
        dict(l=1, labels=["c1", "s1", "c0", "c0"]), dict(l=2, labels=["s2", "s1", "c0", "c1", "C2"]),
        dict(l=1, labels=["c1", "s1", "--c0"]), dict(l=1, labels=["c-1", "s1", "c0"]), dict(l=1, labels=["c1", "s-1", "c0"]),
        dict(l=2, labels=["s2", "s1", "c0", "c1", "c-2"]), dict(l=1, labels=["c1-", "s1", "c0"]),
        dict(l=1, cart=[[1, 0, 0], [0, 1, 0]]), dict(l=1, cart=[[1, 0, 0], [0, 1, 0], [0, 1, 1]]),
        dict(l=1, side="top"), dict(l=-1, labels=[], cart=[]),
    ]
    for b in bad:
        out.append(Rejects(**b))
    return out


def main(tier="quick", seed=0, only=None):
    cs = cm.parse_only(cases(tier, seed), only)
    extra = None
    bounds = {
        "l": "quick additionally: matrix == independent construction for l = 7..10; every l = 0..6 (quick) / 0..10 (thorough), every m: harmonicity (all Laplacian coefficients), orthonormality (full "
             "T S T^T), phase identity and positivity, equality with an independent construction, left = right^T, default order",
        "conventions": "every permutation of the Cartesian order for l = 1 (quick) and l = 2 (thorough, 720); every order/sign pattern of "
                       "the labels for l = 1 (48) and 1/8 of the 3840 patterns for l = 2 (thorough); transpositions and seed-chosen permutations for l up to 4 / 7",
        "malformed": "16 malformed label / component sets executed concretely (CrossHair was tried on the label validation with a symbolic label and withdrawn: it reported 'Confirmed over all paths' although label 'c-1' is a concrete counterexample - its model of int(str) is imprecise)",
        "outside": "floating-point rounding of the generated matrix (exact arithmetic under the shim); l > 10",
    }
    assumptions = ["scipy comb / factorial / factorial2 replaced by exact stubs; sqrt of rationals as products of prime-root atoms "
                   "with r^2 = p, r > 0", "real-number semantics"]
    return run_property("C10", cs, tier, seed, ENCODED, bounds, assumptions, extra=extra, title="Solid-harmonic transformation.")
