"""C06 - density and density-derived fields equal their definitions.

The whole of gbasis/evals/density.py is executed on a *symbolic jet table*: evaluate_basis /
evaluate_deriv_basis are replaced in the density module's namespace by a stub returning fresh symbols
J[(kx,ky,kz)][function, point] and recording the arguments it was called with (C05 decides that the jets
are right, C06 decides the bookkeeping on top of them).  A few end-to-end cases run the real evaluation
code underneath as well.
"""
import itertools
from math import comb

import numpy as np

from refs import gauss as G
from sx import core
from sx.core import Rel, And, Or, Not
from sx.harness import Case, run_property, shell_spec
from . import common as cm

ENCODED = [
    "gbasis.evals.density:evaluate_density_using_evaluated_orbs",
    "gbasis.evals.density:evaluate_density",
    "gbasis.evals.density:evaluate_deriv_reduced_density_matrix",
    "gbasis.evals.density:evaluate_deriv_density",
    "gbasis.evals.density:evaluate_density_gradient",
    "gbasis.evals.density:evaluate_density_laplacian",
    "gbasis.evals.density:evaluate_density_hessian",
    "gbasis.evals.density:evaluate_posdef_kinetic_energy_density",
    "gbasis.evals.density:evaluate_general_kinetic_energy_density",
]

E3 = [(1, 0, 0), (0, 1, 0), (0, 0, 1)]


def tadd(a, b):
    return tuple(x + y for x, y in zip(a, b))


class Jets:
    """jet table + stub for evaluate_basis / evaluate_deriv_basis"""

    def __init__(self, mk, nb, npts, transform_token=None):
        self.mk, self.nb, self.npts = mk, nb, npts
        self.table = {}
        self.calls = []
        self.transform_token = transform_token

    def get(self, orders):
        orders = tuple(int(o) for o in orders)
        if orders not in self.table:
            arr = [[self.mk.var("J%d%d%d_%d_%d" % (orders + (i, n))) for n in range(self.npts)] for i in range(self.nb)]
            self.table[orders] = arr
        return self.table[orders]

    def stub_deriv(self, basis, points, orders, transform=None, deriv_type="general"):
        self.calls.append((tuple(int(o) for o in orders), transform is self.transform_token, deriv_type))
        return self.mk.array(self.get(orders))

    def stub_eval(self, basis, points, transform=None):
        self.calls.append(((0, 0, 0), transform is self.transform_token, "eval"))
        return self.mk.array(self.get((0, 0, 0)))

    def gamma(self, ops, P, o1, o2, n):
        """sum_ab P_ab J[o1]_a J[o2]_b at point n"""
        J1, J2 = self.get(o1), self.get(o2)
        tot = ops.zero
        for a in range(self.nb):
            for b in range(self.nb):
                tot = tot + P[a][b] * J1[a][n] * J2[b][n]
        return tot


class patched:
    def __init__(self, jets):
        self.jets = jets

    def __enter__(self):
        import gbasis.evals.density as dn

        self.dn = dn
        self.saved = (dn.evaluate_deriv_basis, dn.evaluate_basis)
        dn.evaluate_deriv_basis = self.jets.stub_deriv
        dn.evaluate_basis = self.jets.stub_eval
        return dn

    def __exit__(self, *exc):
        self.dn.evaluate_deriv_basis, self.dn.evaluate_basis = self.saved
        return False


def sym_matrix(mk, n, name="P"):
    P = [[None] * n for _ in range(n)]
    for i in range(n):
        for j in range(i, n):
            P[i][j] = P[j][i] = mk.var(f"{name}{i}_{j}")
    return P


def _inputs(mk, p):
    nb, npts = p["nb"], p["npts"]
    token = object() if p.get("transform") else None
    jets = Jets(mk, nb, npts, token)
    if p.get("psd"):
        r = p["psd"]
        C = [[mk.var(f"C{k}_{a}") for a in range(nb)] for k in range(r)]
        P = [[sum((C[k][a] * C[k][b] for k in range(r)), mk.const(0)) for b in range(nb)] for a in range(nb)]
        # keep the matrix exactly symmetric as objects
        for a in range(nb):
            for b in range(a):
                P[a][b] = P[b][a]
    else:
        P = sym_matrix(mk, nb)
    return dict(jets=jets, P=P, token=token, pts=[[0.0, 0.0, 0.0]] * npts)


class Formula(Case):
    """non-thresholded functions: output == defining sum over the density matrix (Leibniz expansion)"""

    prop = "C06"
    canary_scale = "P0_1"
    rtol = 1e-8

    def inputs(self, mk):
        return _inputs(mk, self.params)

    def _call(self, dn, I, mk, deriv_type):
        p = self.params
        P = mk.array(I["P"])
        pts = np.array(I["pts"], dtype=float)
        kw = dict(transform=I["token"], deriv_type=deriv_type)
        f = p["fn"]
        if f == "deriv_density":
            return {"out": dn.evaluate_deriv_density(np.array(p["orders"]), P, None, pts, **kw)}
        if f == "rdm":
            return {"out": dn.evaluate_deriv_reduced_density_matrix(np.array(p["o1"]), np.array(p["o2"]), P, None, pts, **kw)}
        if f == "gradient":
            return {"out": dn.evaluate_density_gradient(P, None, pts, **kw)}
        if f == "laplacian":
            return {"out": dn.evaluate_density_laplacian(P, None, pts, **kw)}
        if f == "hessian":
            h = dn.evaluate_density_hessian(P, None, pts, **kw)
            lap = dn.evaluate_density_laplacian(P, None, pts, **kw)
            tr = np.array([h[n, 0, 0] + h[n, 1, 1] + h[n, 2, 2] for n in range(len(pts))], dtype=object)
            return {"out": h, "hT": np.swapaxes(np.asarray(h).view(np.ndarray), 1, 2), "trace": tr, "_lap": lap}
        raise KeyError(f)

    def code(self, I, mk):
        jets = I["jets"]
        jets.calls = []
        dt = self.params.get("deriv_type", "general")
        with patched(jets) as dn:
            out = self._call(dn, I, mk, dt)
        lap = out.pop("_lap", None)
        if lap is not None:
            out["trace_minus_lap"] = np.asarray(out.pop("trace")).view(np.ndarray) - np.asarray(lap).view(np.ndarray)
        # every call of the basis-evaluation layer must carry the caller's transform, and the caller's back-end
        # whenever the back-end can honour the orders (<= 2), the general one otherwise
        ok_t = all(c[1] for c in jets.calls)
        ok_d = all((c[2] in (dt, "general")) if max(c[0]) <= 2 else (c[2] == "general") for c in jets.calls if c[2] != "eval")
        out["forwarded"] = np.array([1 if ok_t else 0, 1 if ok_d else 0, 1 if jets.calls else 0], dtype=object)
        return out

    def ref(self, I, ops, mk):
        p = self.params
        jets, P = I["jets"], I["P"]
        npts = p["npts"]
        f = p["fn"]
        res = {"forwarded": np.array([1, 1, 1], dtype=object)}
        if f == "deriv_density":
            k = tuple(p["orders"])
            vals = []
            for n in range(npts):
                tot = ops.zero
                for j in itertools.product(*[range(x + 1) for x in k]):
                    c = comb(k[0], j[0]) * comb(k[1], j[1]) * comb(k[2], j[2])
                    tot = tot + c * jets.gamma(ops, P, j, tuple(a - b for a, b in zip(k, j)), n)
                vals.append(tot)
            res["out"] = np.array(vals, dtype=object)
        elif f == "rdm":
            res["out"] = np.array([jets.gamma(ops, P, tuple(p["o1"]), tuple(p["o2"]), n) for n in range(npts)], dtype=object)
        elif f == "gradient":
            res["out"] = np.array([[2 * jets.gamma(ops, P, e, (0, 0, 0), n) for e in E3] for n in range(npts)], dtype=object)
        elif f == "laplacian":
            res["out"] = np.array([sum((2 * jets.gamma(ops, P, tadd(e, e), (0, 0, 0), n) + 2 * jets.gamma(ops, P, e, e, n) for e in E3), ops.zero)
                                   for n in range(npts)], dtype=object)
        elif f == "hessian":
            H = np.empty((npts, 3, 3), dtype=object)
            for n in range(npts):
                for i, ei in enumerate(E3):
                    for j, ej in enumerate(E3):
                        H[n, i, j] = 2 * jets.gamma(ops, P, tadd(ei, ej), (0, 0, 0), n) + 2 * jets.gamma(ops, P, ei, ej, n)
            res["out"] = H
            res["hT"] = H
            res["trace_minus_lap"] = np.array([ops.zero] * npts, dtype=object)
        return res


class Threshold(Case):
    """thresholded functions (density, positive-definite and general kinetic-energy density): path exploration
    with symbolic density matrix, jets and threshold.  On every path:
      raised   =>  some raw value < -threshold        returned  =>  no raw value < -threshold and
      out_n == max(raw_n, 0) (+ alpha * laplacian_n for the general kinetic-energy density)"""

    prop = "C06"
    rtol = 1e-8
    conformance = False
    run_canary = False

    def inputs(self, mk):
        I = _inputs(mk, self.params)
        p = self.params
        if p.get("thr") == "sym":
            I["thr"] = mk.var("thr", ">=0")
        if p["fn"] == "general_ked":
            I["alpha"] = mk.var("alpha") if p.get("alpha") == "sym" else None
        return I

    def _thr(self, I, mk):
        if "thr" in I:
            return mk.symfloat(I["thr"]) if mk.symbolic else float(I["thr"])
        return 1.0e-8

    def code(self, I, mk):
        p = self.params
        P = mk.array(I["P"])
        pts = np.array(I["pts"], dtype=float)
        jets = I["jets"]
        jets.calls = []
        with patched(jets) as dn:
            if p["fn"] == "density":
                out = dn.evaluate_density(P, None, pts, transform=I["token"], threshold=self._thr(I, mk))
            elif p["fn"] == "posdef_ked":
                out = dn.evaluate_posdef_kinetic_energy_density(P, None, pts, transform=I["token"], threshold=self._thr(I, mk))
            else:
                a = I["alpha"]
                alpha = (mk.symfloat(a) if mk.symbolic else float(a)) if a is not None else p.get("alpha", 0)
                out = dn.evaluate_general_kinetic_energy_density(P, None, pts, alpha, transform=I["token"])
        return {"out": out}

    def _raw(self, I, ops):
        p = self.params
        jets, P = I["jets"], I["P"]
        z = (0, 0, 0)
        raw, add = [], []
        for n in range(p["npts"]):
            if p["fn"] == "density":
                raw.append(jets.gamma(ops, P, z, z, n))
                add.append(ops.zero)
            else:
                tau = sum((jets.gamma(ops, P, e, e, n) for e in E3), ops.zero) / 2
                raw.append(tau)
                if p["fn"] == "general_ked":
                    lap = sum((2 * jets.gamma(ops, P, tadd(e, e), z, n) + 2 * jets.gamma(ops, P, e, e, n) for e in E3), ops.zero)
                    a = I["alpha"] if I.get("alpha") is not None else p.get("alpha", 0)
                    add.append(a * lap)
                else:
                    add.append(ops.zero)
        return raw, add

    def path_obligations(self, H, I, ops, mk, out):
        ctx = H.ctx
        raw, add = self._raw(I, ops)
        thr = I["thr"] if "thr" in I else core.lift(ctx, 1.0e-8)
        below = [H.formula(r + thr, "<") for r in raw]  # raw_n < -thr
        if "__raises__" in out:
            if out["__raises__"] != "ValueError":
                H.fail(("raise", ()), f"raised {out['__raises__']} {out.get('__trace__', '')}")
                return
            H.unsat(("raise", ()), And(*[Not(b) for b in below]), "raised although no value is below -threshold")
            return
        H.unsat(("noraise", ()), Or(*below), "returned although a value is below -threshold")
        o = np.asarray(out["out"]).view(np.ndarray)
        for n in range(len(raw)):
            on = core.lift(ctx, o[n])
            d1 = Rel("!=", core.diff_numerator(ctx, on, raw[n] + add[n]))
            d2 = Rel("!=", core.diff_numerator(ctx, on, core.lift(ctx, add[n])))
            H.unsat(("out", (n, 0)), And(H.formula(raw[n], ">="), d1), "non-negative value not returned unchanged")
            H.unsat(("out", (n, 1)), And(H.formula(raw[n], "<"), d2), "negative value within the threshold not returned as 0")
        if self.params.get("psd"):
            # positive semi-definite density matrix: never clipped, never raises
            for n in range(len(raw)):
                H.unsat(("psd", (n,)), H.formula(raw[n], "<"), "negative value for a PSD density matrix")

    def ref_concrete(self, I, ops, mk):
        raw, add = self._raw(I, ops)
        thr = float(I["thr"]) if "thr" in I else 1.0e-8
        if any(r < -thr for r in raw):
            return {"__raises__": "ValueError"}
        return {"out": np.array([max(r, 0.0) + a for r, a in zip(raw, add)])}


class EndToEnd(Case):
    """real evaluation code underneath: density-level function == definition over reference basis-function jets"""

    prop = "C06"
    canary_scale = "Px"  # a point coordinate: symbolic in every variant (a single normalised primitive does not depend on its coefficient)
    rtol = 1e-7
    query_timeout = 120000

    @property
    def concrete(self):
        c = self.params.get("exps")
        if not c:
            return None
        return {f"{t}e{k}": v for t, vs in zip("ABCD", c) for k, v in enumerate(vs)}

    def inputs(self, mk):
        p = self.params
        specs = cm.specs_from(mk, p)
        nb = sum(cm.nfun(l, t) * M for l, t, M in zip(p["ls"], p["types"], p["Ms"]))
        return dict(specs=specs, P=sym_matrix(mk, nb), pt=[mk.var("P" + x) for x in "xyz"])

    def code(self, I, mk):
        import gbasis.evals.density as dn

        p = self.params
        basis = cm.basis_from(mk, I["specs"], p["types"])
        P = mk.array(I["P"])
        pts = mk.array([I["pt"]])
        dt = p.get("deriv_type", "general")
        f = p["fn"]
        if f == "gradient":
            return {"out": dn.evaluate_density_gradient(P, basis, pts, deriv_type=dt)}
        if f == "laplacian":
            return {"out": dn.evaluate_density_laplacian(P, basis, pts, deriv_type=dt)}
        if f == "hessian":
            return {"out": dn.evaluate_density_hessian(P, basis, pts, deriv_type=dt)}
        if f == "deriv_density":
            return {"out": dn.evaluate_deriv_density(np.array(p["orders"]), P, basis, pts, deriv_type=dt)}
        raise KeyError(f)

    def _jet(self, I, ops, orders):
        from refs import harmonics as Hm

        p = self.params
        rows = []
        for s, t in zip(I["specs"], p["types"]):
            v = G.eval_shell(ops, s, I["pt"], orders, normalise=True)
            M, L = len(v), len(v[0])
            if t == "s":
                T = Hm.transformation(ops, s["l"], G.comps(s["l"]), Hm.default_sph_labels(s["l"]))
                for m in range(M):
                    for r in range(len(T)):
                        rows.append(cm._lin(ops, [(T[r][c], v[m][c]) for c in range(L)]))
            else:
                for m in range(M):
                    rows += v[m]
        return rows

    def ref(self, I, ops, mk):
        p = self.params
        P = I["P"]
        cache = {}

        def gam(o1, o2):
            for o in (o1, o2):
                if o not in cache:
                    cache[o] = self._jet(I, ops, o)
            a, b = cache[o1], cache[o2]
            tot = ops.zero
            for i in range(len(a)):
                for j in range(len(b)):
                    tot = tot + P[i][j] * a[i] * b[j]
            return tot

        z = (0, 0, 0)
        f = p["fn"]
        if f == "gradient":
            return {"out": np.array([[2 * gam(e, z) for e in E3]], dtype=object)}
        if f == "laplacian":
            return {"out": np.array([sum((2 * gam(tadd(e, e), z) + 2 * gam(e, e) for e in E3), ops.zero)], dtype=object)}
        if f == "hessian":
            H = np.empty((1, 3, 3), dtype=object)
            for i, ei in enumerate(E3):
                for j, ej in enumerate(E3):
                    H[0, i, j] = 2 * gam(tadd(ei, ej), z) + 2 * gam(ei, ej)
            return {"out": H}
        if f == "deriv_density":
            k = tuple(p["orders"])
            tot = ops.zero
            for j in itertools.product(*[range(x + 1) for x in k]):
                c = comb(k[0], j[0]) * comb(k[1], j[1]) * comb(k[2], j[2])
                tot = tot + c * gam(j, tuple(a - b for a, b in zip(k, j)))
            return {"out": np.array([tot], dtype=object)}
        raise KeyError(f)


def cases(tier, seed=0):
    out = []
    omax = 4
    triples = list(itertools.product(range(omax + 1), repeat=3))
    # every order triple 0..4 (125, enumerated); density matrix 2x2 (quick) / 3x3 (thorough), 1 point
    for k in triples:
        nb = 2 if (tier == "quick" or sum(k) > 6) else 3
        out.append(Formula(fn="deriv_density", orders=list(k), nb=nb, npts=1, transform=True))
    for k in [(1, 0, 0), (2, 1, 0), (1, 1, 1), (2, 2, 2), (0, 2, 1), (2, 0, 2)]:
        out.append(Formula(fn="deriv_density", orders=list(k), nb=2, npts=2, deriv_type="direct"))
    out.append(Formula(fn="deriv_density", orders=[3, 1, 2], nb=2, npts=1, deriv_type="direct"))
    for o1, o2 in [((1, 0, 0), (0, 1, 0)), ((2, 0, 1), (0, 0, 0)), ((1, 1, 0), (1, 1, 0)), ((0, 0, 3), (1, 0, 0))]:
        out.append(Formula(fn="rdm", o1=list(o1), o2=list(o2), nb=3, npts=2, transform=True))
    for fn in ("gradient", "laplacian", "hessian"):
        for dt in ("general", "direct"):
            out.append(Formula(fn=fn, nb=3, npts=2, deriv_type=dt, transform=(dt == "general")))
    # thresholds
    for fn in ("density", "posdef_ked"):
        out.append(Threshold(fn=fn, nb=2, npts=1, thr="sym"))
        np2 = 2 if fn == "density" else 1
        out.append(Threshold(fn=fn, nb=2, npts=np2, thr="sym", transform=True))
        out.append(Threshold(fn=fn, nb=2, npts=1))
        out.append(Threshold(fn=fn, nb=2, npts=np2, psd=1, thr="sym"))
        if tier == "thorough" and fn == "density":
            out.append(Threshold(fn=fn, nb=2, npts=2, psd=2, thr="sym"))
        if tier == "thorough":
            out.append(Threshold(fn=fn, nb=3, npts=1, thr="sym"))
            out.append(Threshold(fn=fn, nb=3, npts=1, psd=1, thr="sym"))
    out.append(Threshold(fn="general_ked", nb=2, npts=1, alpha="sym"))
    out.append(Threshold(fn="general_ked", nb=3, npts=1, alpha="sym", transform=True))
    out.append(Threshold(fn="general_ked", nb=2, npts=1, alpha=0))
    out.append(Threshold(fn="general_ked", nb=2, npts=1, alpha=1))
    # end to end on the real evaluation code
    # each in a worker interpreter of its own (heavy=True): after other cases in the same interpreter the solver's
    # search has been seen to take a different course and time out on obligations it decides in milliseconds alone
    ee = dict(ls=[0, 1], types="cc", Ks=[1, 1], Ms=[1, 1], heavy=True)
    out.append(EndToEnd(fn="gradient", **ee))
    out.append(EndToEnd(fn="laplacian", deriv_type="direct", **ee))
    out.append(EndToEnd(fn="deriv_density", orders=[1, 0, 1], ls=[0, 1], types="cc", Ks=[1, 1], Ms=[1, 1], exps=[["3/2"], ["7/10"]], heavy=True))
    # mixed coordinate types with a two-column shell (the assembly path of the evaluation layer matters here)
    out.append(EndToEnd(fn="gradient", ls=[1, 0], types="sc", Ks=[1, 1], Ms=[2, 1], exps=[["7/10"], ["3/2"]], heavy=True))
    if tier == "thorough":
        out.append(EndToEnd(fn="hessian", deriv_type="direct", ls=[1, 0], types="cc", Ks=[1, 1], Ms=[1, 1], exps=[["7/10"], ["3/2"]]))
        out.append(EndToEnd(fn="deriv_density", orders=[3, 1, 0], ls=[1, 0], types="sc", Ks=[1, 1], Ms=[1, 2], exps=[["7/10"], ["3/2"]]))
        out.append(EndToEnd(fn="gradient", ls=[2, 0], types="sc", Ks=[1, 1], Ms=[1, 1], exps=[["3/10"], ["5"]]))
    return out


def main(tier="quick", seed=0, only=None):
    cs = cm.parse_only(cases(tier, seed), only)
    bounds = {
        "orders": "evaluate_deriv_density: every order triple 0..4 (125, enumerated)",
        "matrices": "symbolic symmetric density matrices 2x2 / 3x3 (indefinite: all real symmetric matrices; PSD: P = C^T C with symbolic C of rank 1, rank 2 for the density in thorough)",
        "points": "1-2 points; the jets at each point are independent symbols",
        "thresholds": "symbolic threshold >= 0 (every value, hence all values around the clipping boundary) and the default 1e-8",
        "alpha": "symbolic alpha (all reals, alpha = 0 split off as its own path) and the literals 0, 1",
        "back_ends": "both; forwarding of deriv_type and transform to the evaluation layer is asserted on every call",
        "end_to_end": "real evaluation code underneath for s/p (quick) and p/d spherical (thorough) bases",
        "outside": "rounding; more than 3 basis functions in the symbolic-jet cases (the formulas are uniform in the matrix size)",
    }
    assumptions = ["real-number semantics", "jets of the basis functions are arbitrary reals in the bookkeeping cases (their correctness is C05)",
                   "scipy comb replaced by an exact stub"]
    return run_property("C06", cs, tier, seed, ENCODED, bounds, assumptions, title="Density and derived fields.")
