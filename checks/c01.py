"""C01 - overlap integrals exact, unit-normalised; asymmetric overlap = off-diagonal block of the union"""
from fractions import Fraction

import numpy as np

from refs import gauss as G
from sx.harness import Case, run_property, shell_spec, make_shell
from . import common as cm

ENCODED = [
    "gbasis.integrals._moment_int:_compute_multipole_moment_integrals_intermediate",
    "gbasis.integrals._moment_int:_cleanup_intermediate_integrals",
    "gbasis.integrals._moment_int:_compute_multipole_moment_integrals",
    "gbasis.integrals.overlap:Overlap.construct_array_contraction",
    "gbasis.integrals.overlap:overlap_integral",
    "gbasis.integrals.overlap_asymm:overlap_integral_asymmetric",
    "gbasis.contractions:GeneralizedContractionShell.norm_prim_cart",
    "gbasis.contractions:GeneralizedContractionShell.assign_norm_cont",
    "gbasis.base_two_symm:BaseTwoIndexSymmetric.construct_array_cartesian",
    "gbasis.base_two_symm:BaseTwoIndexSymmetric.construct_array_spherical",
    "gbasis.base_two_symm:BaseTwoIndexSymmetric.construct_array_mix",
    "gbasis.base_two_asymm:BaseTwoIndexAsymmetric.construct_array_lincomb",
    "gbasis.spherical:generate_transformation",
]


class Block(Case):
    """Overlap.construct_array_contraction(a, b) == closed-form Gaussian moments (Level A)"""

    prop = "C01"
    canary_scale = "Ae0"

    @property
    def concrete(self):
        c = self.params.get("exps")
        if not c:
            return None
        return {f"{t}e{k}": v for t, vs in zip("AB", c) for k, v in enumerate(vs)}

    def inputs(self, mk):
        p = self.params
        return dict(sa=shell_spec(mk, "A", p["la"], p["Ka"], p["Ma"]), sb=shell_spec(mk, "B", p["lb"], p["Kb"], p["Mb"]))

    def code(self, I, mk):
        from gbasis.integrals.overlap import Overlap

        a = make_shell(mk, I["sa"], normalise=False)
        b = make_shell(mk, I["sb"], normalise=False)
        return {"S": Overlap.construct_array_contraction(a, b)}

    def ref(self, I, ops, mk):
        return {"S": np.array(G.contracted(ops, I["sa"], I["sb"], G.overlap_prim(ops, I["sa"]["A"], I["sb"]["A"])), dtype=object)}


class Public(Case):
    """overlap_integral(basis) == normalised closed form (cart / spherical / mixed); diagonal == 1"""

    prop = "C01"
    canary_scale = "Ae0"
    query_timeout = 120000

    def inputs(self, mk):
        p = self.params
        specs = cm.specs_from(mk, p)
        return dict(specs=specs)

    def code(self, I, mk):
        from gbasis.integrals.overlap import overlap_integral

        basis = cm.basis_from(mk, I["specs"], self.params["types"])
        S = overlap_integral(basis)
        return {"S": S, "diag": np.array([S[i, i] for i in range(S.shape[0])], dtype=object)}

    def ref(self, I, ops, mk):
        full = cm.ref_two_index(ops, I["specs"], self.params["types"], lambda A, B: G.overlap_prim(ops, A, B))
        n = len(full)
        return {"S": np.array(full, dtype=object), "diag": np.array([ops.one] * n, dtype=object)}


class Asymm(Case):
    """overlap_integral_asymmetric(b1, b2) == off-diagonal block of overlap_integral(b1 + b2)  (code vs code)"""

    prop = "C01"
    canary_scale = "Ae0"
    query_timeout = 120000

    def inputs(self, mk):
        p = self.params
        specs = cm.specs_from(mk, p)
        return dict(specs=specs)

    def _split(self, I, mk):
        p = self.params
        basis = cm.basis_from(mk, I["specs"], p["types"])
        n1 = p["n1"]
        return basis[:n1], basis[n1:]

    def code(self, I, mk):
        from gbasis.integrals.overlap_asymm import overlap_integral_asymmetric

        b1, b2 = self._split(I, mk)
        return {"S12": overlap_integral_asymmetric(b1, b2)}

    def ref(self, I, ops, mk):
        from gbasis.integrals.overlap import overlap_integral

        b1, b2 = self._split(I, mk)
        full = overlap_integral(list(b1) + list(b2))
        p = self.params
        k1 = sum(cm.nfun(l, t) * M for l, t, M in zip(p["ls"][: p["n1"]], p["types"][: p["n1"]], p["Ms"][: p["n1"]]))
        return {"S12": full[:k1, k1:]}


def cases(tier):
    out = []
    lmax = 5
    for la in range(lmax + 1):
        for lb in range(lmax + 1):
            out.append(Block(la=la, lb=lb, Ka=1, Kb=1, Ma=1, Mb=1))
    # contraction structure: different K and M on the two sides so that an axis mix-up changes shape or value
    for la, lb in [(0, 0), (1, 0), (0, 1), (1, 1), (2, 1), (1, 2)]:
        out.append(Block(la=la, lb=lb, Ka=2, Kb=1, Ma=1, Mb=2))
        out.append(Block(la=la, lb=lb, Ka=1, Kb=2, Ma=2, Mb=1))
    # equal l and >= 2 columns on both sides (two different generalized shells of one type)
    for l in (0, 1, 2):
        out.append(Block(la=l, lb=l, Ka=1, Kb=2 if l < 2 else 1, Ma=2, Mb=2))
    out.append(Public(ls=[0, 1], types="cc", Ks=[2, 1], Ms=[1, 2]))
    out.append(Public(ls=[1, 0], types="cc", Ks=[1, 2], Ms=[2, 1]))
    out.append(Public(ls=[2], types="c", Ks=[2], Ms=[1]))
    out.append(Public(ls=[2], types="s", Ks=[1], Ms=[2]))
    out.append(Public(ls=[2, 1], types="sc", Ks=[1, 1], Ms=[1, 1]))
    out.append(Public(ls=[1, 2], types="cs", Ks=[1, 1], Ms=[1, 1]))
    # atom labels are book-keeping only: equal labels on different centres (two fragments, two geometries), no labels, mixed
    out.append(Public(ls=[0, 1], types="cc", Ks=[1, 1], Ms=[1, 1], icenter=[0, 0]))
    out.append(Public(ls=[1, 1, 0], types="csc", Ks=[1, 1, 1], Ms=[1, 1, 1], icenter=[1, 1, 0], share={"2": 0}))
    # homonuclear: the same shell parameters on two centres, a second shell on the first centre
    out.append(Public(ls=[1, 1, 0], types="csc", Ks=[1, 1, 1], Ms=[1, 1, 1], twin={"1": 0}, share={"2": 0}))
    out.append(Asymm(ls=[1, 0, 1], types="ccs", Ks=[1, 1, 1], Ms=[1, 2, 1], n1=1))
    out.append(Asymm(ls=[0, 2, 1], types="csc", Ks=[2, 1, 1], Ms=[1, 1, 1], n1=2))
    if tier == "thorough":
        E = cm.EXP_POOL
        for la in range(4):
            for lb in range(4):
                if la + lb <= 2:
                    out.append(Block(la=la, lb=lb, Ka=2, Kb=2, Ma=2, Mb=2))
                else:  # Level B: concrete exponents, everything else symbolic
                    out.append(Block(la=la, lb=lb, Ka=2, Kb=2, Ma=2, Mb=2,
                                     exps=[[str(E[(la + k) % 6]) for k in range(2)], [str(E[(lb + 3 + 2 * k) % 6]) for k in range(2)]]))
        for la, lb in [(0, 0), (1, 0), (1, 1), (2, 0)]:
            if la + lb <= 1:
                out.append(Block(la=la, lb=lb, Ka=3, Kb=2, Ma=1, Mb=3))
            else:
                out.append(Block(la=la, lb=lb, Ka=3, Kb=2, Ma=1, Mb=3, exps=[["3/2", "1/50", "5"], ["7/10", "11/4"]]))
        for l in (3, 4, 5):
            out.append(Public(ls=[l], types="c", Ks=[1], Ms=[1]))
            if l < 5:  # l = 5 spherical: 11 x 11 sums over 21 x 21 components with a dozen root atoms each - beyond 30 min
                out.append(Public(ls=[l], types="s", Ks=[1], Ms=[1]))
        out.append(Public(ls=[3], types="c", Ks=[2], Ms=[2]))
        out.append(Public(ls=[2, 2], types="ss", Ks=[1, 1], Ms=[1, 2]))
        out.append(Public(ls=[2, 1], types="cs", Ks=[2, 1], Ms=[1, 2]))
        out.append(Public(ls=[0, 1, 2], types="csc", Ks=[1, 1, 1], Ms=[1, 1, 1]))
        out.append(Public(ls=[3, 0], types="sc", Ks=[1, 1], Ms=[1, 1]))
        out.append(Asymm(ls=[2, 1, 0, 1], types="sccs", Ks=[1, 1, 2, 1], Ms=[1, 1, 1, 2], n1=2))
    return out


def main(tier="quick", seed=0, only=None):
    cs = cm.parse_only(cases(tier), only)
    bounds = {
        "angular_momenta": "block level: every (la, lb) in 0..5 x 0..5 enumerated (36 pairs), exponents/centres/coefficients symbolic (Level A)",
        "primitives": "K <= 2 (quick), K <= 3 (thorough)", "segments": "M <= 2 (quick), M <= 3 (thorough)",
        "public": "1-3 shells (4 in one thorough asymmetric case), l <= 2 quick / <= 5 single-shell thorough",
        "outside": "rounding error (real-number semantics only); K > 3, M > 3, more shells; exponent *values* are universally quantified so the numeric range 0.02..1e5 is covered only in exact arithmetic",
    }
    assumptions = [
        "real-number semantics of the code (no floating-point rounding)",
        "exponents > 0, coefficients != 0; self-overlap of every contraction is non-zero (shell normalisable)",
        "scipy.special.factorial2 replaced by its exact integer contract; pi is any real in (3.14159, 3.1416)",
    ]
    return run_property("C01", cs, tier, seed, ENCODED, bounds, assumptions, title="Overlap exactness and normalisation.")
