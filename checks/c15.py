"""C15 - stress tensor, Ehrenfest force and Ehrenfest Hessian obey their definitions.

stress_tensor.py and the real density.py underneath are executed on the symbolic jet table of C06;
alpha and beta are symbolic (float-subclass carriers, so the special-cased values 0, 1/2, 1 become paths).
Oracle: the documented stress-tensor expression over Gamma(m, n) = sum_ab P_ab J^m_a J^n_b; force and
Hessian are obtained from the *reference* stress tensor by the formal derivative
d_k Gamma(m, n) = Gamma(m + e_k, n) + Gamma(m, n + e_k).
"""
import itertools
from fractions import Fraction

import numpy as np

from sx.harness import Case, run_property
from . import common as cm
from .c06 import Jets, patched, sym_matrix, E3, tadd

ENCODED = [
    "gbasis.evals.stress_tensor:evaluate_stress_tensor",
    "gbasis.evals.stress_tensor:evaluate_ehrenfest_force",
    "gbasis.evals.stress_tensor:evaluate_ehrenfest_hessian",
    "gbasis.evals.density:evaluate_deriv_reduced_density_matrix",
    "gbasis.evals.density:evaluate_deriv_density",
    "gbasis.evals.density:evaluate_density_laplacian",
]

Z = (0, 0, 0)


def key(m, n):
    return (m, n) if m <= n else (n, m)  # Gamma(m, n) = Gamma(n, m) for a symmetric density matrix


def lin_add(a, b, s=1):
    out = dict(a)
    for k, v in b.items():
        out[k] = out.get(k, 0) + s * v
    return out


def lin_scale(a, c):
    return {k: v * c for k, v in a.items()}


def d(expr, k):
    """formal derivative along axis k of a linear combination of Gamma(m, n)"""
    out = {}
    e = E3[k]
    for (m, n), c in expr.items():
        for kk in (key(tadd(m, e), n), key(m, tadd(n, e))):
            out[kk] = out.get(kk, 0) + c
    return out


def ref_sigma(alpha, beta):
    """documented stress tensor as {(i, j): linear combination}"""
    lap = {}
    for e in E3:
        lap = lin_add(lap, {key(tadd(e, e), Z): 2, key(e, e): 2})
    sig = {}
    for i, ei in enumerate(E3):
        for j, ej in enumerate(E3):
            ex = {key(ei, ej): -alpha}
            ex = lin_add(ex, {key(tadd(ei, ej), Z): 1 - alpha})
            if i == j:
                ex = lin_add(ex, lin_scale(lap, -beta / 2))
            sig[(i, j)] = ex
    return sig


def ref_force(alpha, beta):
    sig = ref_sigma(alpha, beta)
    F = []
    for i in range(3):
        ex = {}
        for j in range(3):
            ex = lin_add(ex, d(sig[(i, j)], j), -1)
        F.append(ex)
    return F


def ref_hessian(alpha, beta):
    F = ref_force(alpha, beta)
    return {(i, j): d(F[i], j) for i in range(3) for j in range(3)}


def evaluate(expr, jets, ops, P, n):
    tot = ops.zero
    for (m, k), c in expr.items():
        tot = tot + c * jets.gamma(ops, P, m, k, n)
    return tot


class Stress(Case):
    prop = "C15"
    canary_scale = "P0_1"
    rtol = 1e-8

    def inputs(self, mk):
        p = self.params
        token = object() if p.get("transform") else None
        jets = Jets(mk, p["nb"], p["npts"], token)
        I = dict(jets=jets, P=sym_matrix(mk, p["nb"]), token=token, pts=[[0.0, 0.0, 0.0]] * p["npts"])
        for nm in ("alpha", "beta"):
            v = p[nm]
            I[nm] = mk.var(nm) if v == "sym" else mk.const(Fraction(v))
        return I

    def _par(self, I, mk, nm):
        v = self.params[nm]
        if v == "sym":
            return mk.symfloat(I[nm]) if mk.symbolic else float(I[nm])
        f = Fraction(v)
        return int(f) if f.denominator == 1 else float(f)

    def code(self, I, mk):
        import gbasis.evals.stress_tensor as st

        p = self.params
        jets = I["jets"]
        jets.calls = []
        P = mk.array(I["P"])
        pts = np.array(I["pts"], dtype=float)
        a, b = self._par(I, mk, "alpha"), self._par(I, mk, "beta")
        with patched(jets):
            if p["fn"] == "stress":
                out = st.evaluate_stress_tensor(P, None, pts, alpha=a, beta=b, transform=I["token"])
                res = {"out": out, "outT": np.swapaxes(np.asarray(out).view(np.ndarray), 1, 2)}
            elif p["fn"] == "force":
                res = {"out": st.evaluate_ehrenfest_force(P, None, pts, alpha=a, beta=b, transform=I["token"])}
            else:
                res = {"out": st.evaluate_ehrenfest_hessian(P, None, pts, alpha=a, beta=b, transform=I["token"],
                                                            symmetric=bool(p.get("symmetric")))}
        ok_t = all(c[1] for c in jets.calls)
        res["forwarded"] = np.array([1 if ok_t else 0, 1 if jets.calls else 0], dtype=object)
        return res

    def ref(self, I, ops, mk):
        p = self.params
        jets, P = I["jets"], I["P"]
        a, b = I["alpha"], I["beta"]
        npts = p["npts"]
        res = {"forwarded": np.array([1, 1], dtype=object)}
        if p["fn"] == "stress":
            sig = ref_sigma(a, b)
            arr = np.empty((npts, 3, 3), dtype=object)
            for n in range(npts):
                for i in range(3):
                    for j in range(3):
                        arr[n, i, j] = evaluate(sig[(i, j)], jets, ops, P, n)
            res["out"] = arr
            res["outT"] = arr
        elif p["fn"] == "force":
            F = ref_force(a, b)
            res["out"] = np.array([[evaluate(F[i], jets, ops, P, n) for i in range(3)] for n in range(npts)], dtype=object)
        else:
            Hh = ref_hessian(a, b)
            arr = np.empty((npts, 3, 3), dtype=object)
            for n in range(npts):
                for i in range(3):
                    for j in range(3):
                        v = evaluate(Hh[(i, j)], jets, ops, P, n)
                        if p.get("symmetric"):
                            v = (v + evaluate(Hh[(j, i)], jets, ops, P, n)) / 2
                        arr[n, i, j] = v
            res["out"] = arr
        return res


class StressReal(Case):
    """end to end on the real evaluation code (one normalised s or p shell, symbolic point and density matrix):
    the three quantities == the reference expressions over reference jets (orders up to 4)"""

    prop = "C15"
    canary_scale = "Ae0"
    rtol = 1e-7
    query_timeout = 120000

    def inputs(self, mk):
        from sx.harness import shell_spec

        p = self.params
        sh = shell_spec(mk, "A", p["l"], 1, 1)
        nb = (p["l"] + 1) * (p["l"] + 2) // 2
        nt = p.get("nt")
        T = [[mk.var(f"T{i}_{j}") for j in range(nb)] for i in range(nt)] if nt else None
        return dict(sh=sh, P=sym_matrix(mk, nt or nb), pt=[mk.var("p" + x) for x in "xyz"], T=T)

    def code(self, I, mk):
        import gbasis.evals.stress_tensor as st
        from sx.harness import make_shell

        p = self.params
        basis = [make_shell(mk, I["sh"], "cartesian")]
        a = Fraction(p["alpha"])
        b = Fraction(p["beta"])
        a = int(a) if a.denominator == 1 else float(a)
        b = int(b) if b.denominator == 1 else float(b)
        P, pts = mk.array(I["P"]), mk.array([I["pt"]])
        f = {"stress": st.evaluate_stress_tensor, "force": st.evaluate_ehrenfest_force, "hessian": st.evaluate_ehrenfest_hessian}[p["fn"]]
        if I["T"] is not None:
            return {"out": f(P, basis, pts, alpha=a, beta=b, transform=mk.array(I["T"]))}
        return {"out": f(P, basis, pts, alpha=a, beta=b)}

    def ref(self, I, ops, mk):
        from refs import gauss as G

        p = self.params
        a, b = ops.const(Fraction(p["alpha"])), ops.const(Fraction(p["beta"]))
        cache = {}

        def jet(o):
            if o not in cache:
                v = G.eval_shell(ops, I["sh"], I["pt"], o, normalise=True)[0]
                if I["T"] is not None:  # the transformed functions: rows of T applied to the contractions
                    v = [sum((I["T"][i][j] * v[j] for j in range(len(v))), ops.zero) for i in range(len(I["T"]))]
                cache[o] = v
            return cache[o]

        def ev(expr):
            tot = ops.zero
            for (m, n), c in expr.items():
                jm, jn = jet(m), jet(n)
                g = ops.zero
                for i in range(len(jm)):
                    for j in range(len(jn)):
                        g = g + I["P"][i][j] * jm[i] * jn[j]
                tot = tot + c * g
            return tot

        if p["fn"] == "stress":
            sig = ref_sigma(a, b)
            return {"out": np.array([[[ev(sig[(i, j)]) for j in range(3)] for i in range(3)]], dtype=object)}
        if p["fn"] == "force":
            F = ref_force(a, b)
            return {"out": np.array([[ev(F[i]) for i in range(3)]], dtype=object)}
        Hh = ref_hessian(a, b)
        return {"out": np.array([[[ev(Hh[(i, j)]) for j in range(3)] for i in range(3)]], dtype=object)}


def cases(tier, seed=0):
    out = []
    out.append(StressReal(fn="hessian", l=0, alpha="1/2", beta="1"))
    out.append(StressReal(fn="force", l=0, alpha="0", beta="2"))
    out.append(StressReal(fn="stress", l=1, alpha="1/2", beta="1"))
    # with a rectangular transformation matrix (2 x 3 on a p shell), end to end
    out.append(StressReal(fn="hessian", l=1, alpha="1", beta="1/2", nt=2, heavy=True))
    out.append(StressReal(fn="force", l=1, alpha="1/2", beta="1", nt=2))
    out.append(StressReal(fn="stress", l=1, alpha="0", beta="1", nt=2))
    if tier == "thorough":
        out.append(StressReal(fn="hessian", l=1, alpha="0", beta="1/2"))
        out.append(StressReal(fn="force", l=1, alpha="2", beta="1"))
    for fn in ("stress", "force", "hessian"):
        out.append(Stress(fn=fn, nb=2, npts=1, alpha="sym", beta="sym", transform=True))
        for a, b in [("1", "0"), ("0", "1"), ("1/2", "3"), ("1", "1"), ("0", "0"), ("-2", "1/2")]:
            out.append(Stress(fn=fn, nb=2, npts=2, alpha=a, beta=b))
        if fn == "hessian":
            out.append(Stress(fn=fn, nb=2, npts=1, alpha="sym", beta="sym", symmetric=True))
            out.append(Stress(fn=fn, nb=2, npts=1, alpha="1/2", beta="1", symmetric=True, transform=True))
        if tier == "thorough":
            out.append(Stress(fn=fn, nb=3, npts=2, alpha="sym", beta="sym"))
            out.append(Stress(fn=fn, nb=3, npts=1, alpha="sym", beta="0", transform=True))
            out.append(Stress(fn=fn, nb=3, npts=1, alpha="1", beta="sym"))
    return out


def main(tier="quick", seed=0, only=None):
    cs = cm.parse_only(cases(tier, seed), only)
    bounds = {
        "parameters": "alpha, beta symbolic (all reals; the special-cased values 0, 1/2, 1 are separate paths of the same run) and six literal pairs",
        "matrices": "symbolic symmetric density matrix 2x2 (3x3 thorough), 1-2 points, with and without a transform token",
        "outside": "rounding; the basis-function jets are arbitrary reals here (their correctness is C05)",
    }
    assumptions = ["real-number semantics", "density matrix symmetric (Gamma(m,n) = Gamma(n,m))",
                   "Hessian oracle = +d_k of the reference force, which is what the documented *expanded* formula states (the one-line "
                   "header of the docstring carries the opposite sign)"]
    return run_property("C15", cs, tier, seed, ENCODED, bounds, assumptions, title="Stress tensor / Ehrenfest force / Hessian.")
