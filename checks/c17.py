"""C17 - positivity and Schwarz bounds of Gram matrices.

The inequalities involve exp and the Boys function and are not decidable directly (cvc5 cannot even show
t e^-t <= 1/2).  Two routes, as announced in DESIGN.md:
 (1) sufficient condition: within C17's bounds the solver proves that the returned arrays *are* the Gram forms
     (overlap <a|b>, 1/2 <grad a|grad b> = -1/2 <a|Laplacian b>, -q <a| 1/|r-R| |b>, (ab|cd)) - the obligations of
     C01-C04 re-run here.  A Gram matrix of a positive (semi-)definite kernel is PSD / Schwarz-bounded by a one-line
     lemma that is TRUSTED, not solver-checked.
 (2) direct solver obligations where exp-monotonicity (L <= 0 => exp(L) <= 1) and 0 < F_0 <= 1 suffice: s-type
     shells - |S_ab| <= 1, 1 - S_ab^2 >= 0, (ss|ss) >= 0, (ab|cd)^2 <= (ab|ab)(cd|cd), V_aa <= 0 for q > 0, T_aa >= 0.
A failure of (1) is not a C17 violation by itself: it is reported only if the replayed real output violates an
inequality (eigenvalue / Schwarz ratio beyond the property's tolerance); otherwise it is inconclusive.
"""
import itertools

import numpy as np

from refs import gauss as G
from sx import core, harness
from sx.core import Rel, And, Or, Not, Implies
from sx.harness import Case, run_property, shell_spec, make_shell
from . import common as cm
from . import c01, c02, c03, c04, c09

ENCODED = sorted(set(c01.ENCODED + c02.ENCODED + c03.ENCODED + c04.ENCODED))


class _GramMixin:
    """C01-C04 obligation re-run under C17: a mismatch is only a C17 violation if an inequality fails on the real output"""

    prop = "C17"

    gram_kind = "psd"
    gram_tol = 1e-9

    def replay_custom(self, I, mk):
        """elementwise disagreement with the Gram form is not what C17 states: the replay evaluates the
        inequalities themselves on the real output at the witness input"""
        try:
            out = self.code(I, mk)
        except (ValueError, TypeError, IndexError) as e:
            from sx.harness import _raised_in_library

            if _raised_in_library(e):
                return "reproduced", f"the library raised {type(e).__name__} on a valid basis: {e}"
            raise
        key = [k for k in out if k not in ("diag",)][0]
        A = np.asarray(out[key], dtype=float)
        if A.ndim == 3:
            A = A[:, :, 0]
        if A.ndim == 4:
            n = A.shape[0]
            A = A.reshape(n * n, n * n)
        if not np.all(np.isfinite(A)):
            return "reproduced", "non-finite entries"
        asym = np.abs(A - A.T).max()
        ev = np.linalg.eigvalsh((A + A.T) / 2)
        scale = max(np.abs(ev).max(), 1e-300)
        bad = []
        if asym > self.gram_tol * max(np.abs(A).max(), 1.0):
            bad.append(f"not symmetric ({asym:.3e})")
        if self.gram_kind == "psd" and ev.min() < -self.gram_tol * scale:
            bad.append(f"smallest eigenvalue {ev.min():.3e}")
        if self.gram_kind == "nsd" and ev.max() > self.gram_tol * scale:
            bad.append(f"largest eigenvalue {ev.max():.3e}")
        if self.gram_kind == "overlap" and (ev.min() < -self.gram_tol * scale or np.abs(A).max() > 1 + self.gram_tol):
            bad.append(f"smallest eigenvalue {ev.min():.3e}, max |S| {np.abs(A).max():.12f}")
        if bad:
            return "reproduced", "; ".join(bad)
        return "not-reproduced", "inequalities hold on the real output at the witness input"


class GramOverlap(_GramMixin, c01.Public):
    gram_kind = "overlap"


class GramKinetic(_GramMixin, c02.Public):
    pass


class GramPointCharge(_GramMixin, c03.Public):
    gram_kind = "nsd"

    def inputs(self, mk):
        I = c03.Public.inputs(self, mk)
        # C17 speaks about positive charges
        I["q"] = [mk.var(f"q{i}", ">0") for i in range(len(I["q"]))]
        return I

    def code(self, I, mk):
        return {"V": c03.Public.code(self, I, mk)["V"]}

    def ref(self, I, ops, mk):
        return {"V": c03.Public.ref(self, I, ops, mk)["V"]}


class GramEri(_GramMixin, c04.PublicS):
    gram_tol = 1e-6


class GramEriSph(_GramMixin, c09.PublicDispatch):
    """spherical / mixed ERI array == the Cartesian Gram array contracted with the solid-harmonic matrices (a
    congruence keeps positive semi-definiteness); generalized spherical shells included"""

    gram_tol = 1e-6

    def code(self, I, mk):
        return {"A": c09.PublicDispatch.code(self, I, mk)["A"]}


class Direct(Case):
    """s-type shells (K = 1): inequalities proved directly by the solver"""

    prop = "C17"
    conformance = False
    run_canary = False
    query_timeout = 60000

    def inputs(self, mk):
        n = self.params["n"]
        I = dict(specs=[shell_spec(mk, "ABCD"[i], 0, 1, 1) for i in range(n)])
        if self.params["what"] == "pc":
            I["R"] = [mk.var("R" + x) for x in "xyz"]
            I["q"] = mk.var("q", ">0")
        return I

    def code(self, I, mk):
        w = self.params["what"]
        basis = cm.basis_from(mk, I["specs"], "c" * len(I["specs"]))
        if w == "overlap":
            from gbasis.integrals.overlap import overlap_integral
            return {"A": overlap_integral(basis)}
        if w == "kinetic":
            from gbasis.integrals.kinetic_energy import kinetic_energy_integral
            return {"A": kinetic_energy_integral(basis)}
        if w == "pc":
            from gbasis.integrals.point_charge import point_charge_integral
            return {"A": point_charge_integral(basis, mk.array([I["R"]]), mk.array([I["q"]]))[:, :, 0]}
        if w == "eri":
            from gbasis.integrals.electron_repulsion import electron_repulsion_integral
            return {"A": electron_repulsion_integral(basis, notation="chemist")}
        raise KeyError(w)

    def path_obligations(self, H, I, ops, mk, out):
        if "__raises__" in out:
            H.fail(("raise", ()), f"raised {out['__raises__']} {out.get('__trace__', '')[-200:]}")
            return
        ctx = H.ctx
        A = np.asarray(out["A"]).view(np.ndarray)
        # exp-monotonicity instances: exp(L) <= 1 whenever L <= 0  (L = -mu R^2 here, so the premise is provable)
        axioms = []
        w = self.params["what"]

        def mat(x):
            return core.materialise(core.lift(ctx, x))

        vals = {idx: mat(A[idx]) for idx in np.ndindex(*A.shape)}
        for L, E in ctx.atoms.get(("exp", None), []):
            axioms.append(Implies(H.formula(L, "<="), H.formula(E - 1, "<=")))
        ax = And(*axioms)
        n = A.shape[0]
        if w == "overlap":
            for i in range(n):
                for j in range(n):
                    H.unsat(("abs<=1", (i, j)), And(ax, Or(H.formula(vals[i, j] - 1, ">"), H.formula(vals[i, j] + 1, "<"))), "|S_ab| > 1")
                    H.equal(("sym", (i, j)), A[i, j], A[j, i])
            for i in range(n):
                for j in range(i + 1, n):
                    det = vals[i, i] * vals[j, j] - vals[i, j] * vals[j, i]
                    H.unsat(("minor2", (i, j)), And(ax, H.formula(det, "<")), "2x2 principal minor of the overlap matrix negative")
        elif w == "kinetic":
            for i in range(n):
                H.unsat(("diag>=0", (i,)), And(ax, H.formula(vals[i, i], "<")), "T_aa < 0")
        elif w == "pc":
            for i in range(n):
                H.unsat(("diag<=0", (i,)), And(ax, H.formula(vals[i, i], ">")), "V_aa > 0 for a positive charge")
        elif w == "eri":
            for i, j in itertools.product(range(n), repeat=2):
                H.unsat(("(ab|ab)>=0", (i, j)), And(ax, H.formula(vals[i, j, i, j], "<")), "(ab|ab) < 0")
            for i, j, k, l in itertools.product(range(n), repeat=4):
                if (i, j) <= (k, l):
                    lhs = vals[i, j, k, l] * vals[i, j, k, l] - vals[i, j, i, j] * vals[k, l, k, l]
                    H.unsat(("schwarz", (i, j, k, l)), And(ax, H.formula(lhs, ">")), "(ab|cd)^2 > (ab|ab)(cd|cd)")

    def replay_custom(self, I, mk):
        """the inequalities evaluated on the real output at the witness input"""
        A = np.asarray(self.code(I, mk)["A"], dtype=float)
        w = self.params["what"]
        n = A.shape[0]
        tol = 1e-9
        bad = []
        if w == "overlap":
            if np.abs(A).max() > 1 + tol or np.abs(A - A.T).max() > tol:
                bad.append("|S| > 1 or not symmetric")
            for i in range(n):
                for j in range(i + 1, n):
                    if A[i, i] * A[j, j] - A[i, j] * A[j, i] < -tol:
                        bad.append(f"minor ({i},{j}) negative")
        elif w == "kinetic" and np.diag(A).min() < -tol * max(np.abs(A).max(), 1e-300):
            bad.append("T_aa < 0")
        elif w == "pc" and np.diag(A).max() > tol * max(np.abs(A).max(), 1e-300):
            bad.append("V_aa > 0")
        elif w == "eri":
            for i, j, k, l in itertools.product(range(n), repeat=4):
                if A[i, j, i, j] < -1e-6 * max(np.abs(A).max(), 1e-300):
                    bad.append("(ab|ab) < 0")
                if A[i, j, k, l] ** 2 > A[i, j, i, j] * A[k, l, k, l] * (1 + 1e-6) + 1e-300:
                    bad.append(f"Schwarz ({i}{j}|{k}{l})")
        if bad:
            return "reproduced", "; ".join(bad[:3])
        return "not-reproduced", "inequalities hold on the real output at the witness input"


def cases(tier, seed=0):
    out = []
    # (1) Gram-form obligations at C17's bounds
    out.append(GramOverlap(ls=[0, 1], types="cc", Ks=[2, 1], Ms=[1, 2]))
    out.append(GramOverlap(ls=[2, 1], types="sc", Ks=[1, 1], Ms=[1, 1]))
    out.append(GramOverlap(ls=[3], types="c", Ks=[1], Ms=[1]))
    # all-spherical basis with a generalized shell (columns of different norm): the third assembly path
    out.append(GramOverlap(ls=[1, 1], types="ss", Ks=[2, 1], Ms=[2, 1]))
    out.append(GramKinetic(ls=[1, 0], types="ss", Ks=[2, 1], Ms=[2, 1]))
    out.append(GramKinetic(ls=[0, 1], types="cc", Ks=[2, 1], Ms=[1, 2]))
    out.append(GramKinetic(ls=[2, 1], types="sc", Ks=[1, 1], Ms=[1, 1]))
    out.append(GramPointCharge(ls=[0, 1], types="cc", Ks=[2, 1], Ms=[1, 2], nq=1))
    out.append(GramPointCharge(ls=[2, 1], types="sc", Ks=[1, 1], Ms=[1, 1], nq=1))
    out.append(GramPointCharge(ls=[0, 0], types="cc", Ks=[2, 2], Ms=[1, 1], nq=1, twin={"1": 0}))
    out.append(GramEri(ls=[0, 0], Ks=[2, 1], Ms=[1, 2]))
    out.append(GramEriSph(module="eri", ls=[0, 1], types="cs", Ks=[1, 1], Ms=[1, 2]))
    out.append(GramEriSph(module="eri", ls=[1, 1], types="ss", Ks=[1, 1], Ms=[1, 2]))
    out.append(GramEri(ls=[0, 0], Ks=[2, 1], Ms=[2, 2], exps=[["3/2", "3/10"], ["7/10"]], heavy=True))
    if tier == "thorough":
        out.append(GramOverlap(ls=[0, 1, 2], types="csc", Ks=[1, 1, 1], Ms=[1, 1, 1]))
        out.append(GramOverlap(ls=[3, 1], types="sc", Ks=[1, 1], Ms=[1, 1]))
        out.append(GramKinetic(ls=[0, 1, 2], types="csc", Ks=[1, 1, 1], Ms=[1, 1, 1]))
        out.append(GramKinetic(ls=[3, 1], types="cs", Ks=[1, 1], Ms=[1, 1]))
        out.append(GramPointCharge(ls=[0, 1, 2], types="ccs", Ks=[1, 1, 1], Ms=[1, 1, 1], nq=1))
        out.append(GramEri(ls=[0, 1], Ks=[1, 1], Ms=[1, 1]))
    # (2) direct inequalities for s-type shells
    out.append(Direct(what="overlap", n=2))
    out.append(Direct(what="kinetic", n=2))
    out.append(Direct(what="pc", n=2))
    out.append(Direct(what="eri", n=2))
    if tier == "thorough":
        out.append(Direct(what="overlap", n=3))
        out.append(Direct(what="eri", n=3))
    return out


def main(tier="quick", seed=0, only=None):
    cs = cm.parse_only(cases(tier, seed), only)
    bounds = {
        "gram_form": "overlap / kinetic / point-charge / ERI public arrays = Gram forms for 1-3 shells, l <= 3, K <= 2, M <= 2 (ERI: s and p shells)",
        "direct": "2-3 s-type shells with one primitive: |S_ab| <= 1, symmetric, every 2x2 principal minor of S >= 0, T_aa >= 0, V_aa <= 0 (q > 0), "
                  "(ab|ab) >= 0, (ab|cd)^2 <= (ab|ab)(cd|cd) for every index quadruple",
        "outside": "the inequalities for l > 0 or contracted functions are claimed only through the Gram-form route and the trusted lemma; "
                   "positive semi-definiteness of matrices larger than 2x2 directly; nearly linearly dependent bases in floating point; the rounding tolerances",
    }
    assumptions = ["real-number semantics",
                   "TRUSTED LEMMA (not solver-checked): a Gram matrix <f_a|K|f_b> of a positive semi-definite kernel K is PSD; (ab|cd)^2 <= (ab|ab)(cd|cd) by Cauchy-Schwarz for the Coulomb kernel",
                   "instances of exp-monotonicity: L <= 0 => exp(L) <= 1; Boys function 0 < F_0 <= 1"]
    return run_property("C17", cs, tier, seed, ENCODED, bounds, assumptions, title="Positivity / Schwarz bounds.")
