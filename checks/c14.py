"""C14 - electrostatic potential = nuclear minus electronic Coulomb potential; distance mask; transforms"""
import itertools

import numpy as np

from refs import gauss as G
from sx import core
from sx.core import Rel, And, Or, Not
from sx.harness import Case, run_property, shell_spec
from . import common as cm
from .c06 import sym_matrix

ENCODED = [
    "gbasis.evals.electrostatic_potential:electrostatic_potential",
    "gbasis.integrals.point_charge:point_charge_integral",
    "gbasis.integrals.point_charge:PointChargeIntegral.construct_array_contraction",
]


class pc_stub:
    """replaces point_charge_integral in the ESP module: symbols V[a, b, n] = int phi_a phi_b / |r - R_n|"""

    def __init__(self, V, T_token, T):
        self.V, self.T_token, self.T = V, T_token, T
        self.calls = []

    def __call__(self, basis, points, charges, transform=None):
        self.calls.append(transform is self.T_token)
        V = np.asarray(self.V, dtype=object)
        q = np.asarray(charges).view(np.ndarray)
        out = np.empty(V.shape, dtype=object)
        for idx in np.ndindex(*V.shape):
            out[idx] = V[idx] * q[idx[2]] * (-1)
        if transform is not None:
            T = np.asarray(self.T, dtype=object)
            out = np.tensordot(T, out, (1, 0))
            out = np.swapaxes(np.tensordot(T, out, (1, 1)), 0, 1)
        return out


class patched:
    def __init__(self, stub):
        self.stub = stub

    def __enter__(self):
        import gbasis.evals.electrostatic_potential as esp

        self.esp = esp
        self.saved = esp.point_charge_integral
        esp.point_charge_integral = self.stub
        return esp

    def __exit__(self, *exc):
        self.esp.point_charge_integral = self.saved
        return False


class Esp(Case):
    """bookkeeping of electrostatic_potential on symbolic point-charge integrals: for every point the result is
    sum_{A: d_A >= tau} Z_A / d_A - sum_ab P_ab V_ab with the mask decided by the *distance* (whatever the charge)"""

    prop = "C14"
    rtol = 1e-8
    conformance = False
    run_canary = False
    query_timeout = 60000

    def inputs(self, mk):
        p = self.params
        nao, npts, nnuc = p["nao"], p["npts"], p["nnuc"]
        V = [[[None] * npts for _ in range(nao)] for _ in range(nao)]
        for a in range(nao):
            for b in range(a, nao):
                for n in range(npts):
                    V[a][b][n] = V[b][a][n] = mk.var(f"V{a}_{b}_{n}")
        norb = p.get("norb") or nao
        T = [[mk.var(f"T{i}_{a}") for a in range(nao)] for i in range(norb)] if p.get("norb") else None
        I = dict(V=V, T=T, P=sym_matrix(mk, norb),
                 pts=[[mk.var(f"p{n}{x}") for x in "xyz"] for n in range(npts)],
                 nuc=[[mk.var(f"R{a}{x}") for x in "xyz"] for a in range(nnuc)],
                 Z=[mk.var(f"Z{a}", p.get("zdom", "!=0")) for a in range(nnuc)])
        if p.get("tau") == "sym":
            I["tau"] = mk.var("tau", ">0")
        I["basis"] = None
        return I

    def _basis(self, mk, nao):
        # real shells are only needed for the size checks of the routine (number of atomic orbitals)
        from gbasis.contractions import GeneralizedContractionShell

        shells = []
        left = nao
        while left > 0:
            l = 1 if left >= 3 else 0
            s = GeneralizedContractionShell.__new__(GeneralizedContractionShell)
            s._angmom = l
            s._coeffs = np.zeros((1, 1))
            s._exps = np.zeros(1)
            s.coord_type = "cartesian"
            shells.append(s)
            left -= 3 if l == 1 else 1
        return shells

    def _tau(self, I, mk):
        if "tau" in I:
            return mk.symfloat(I["tau"]) if mk.symbolic else float(I["tau"])
        return self.params.get("tau", 0.0)

    def code(self, I, mk):
        p = self.params
        token = mk.array(I["T"]) if I["T"] is not None else None
        stub = pc_stub(I["V"], token, I["T"])
        if not mk.symbolic:
            stub.V = np.array(I["V"], dtype=float)
        with patched(stub) as esp:
            out = esp.electrostatic_potential(self._basis(mk, p["nao"]), mk.array(I["P"]), mk.array(I["pts"]), mk.array(I["nuc"]),
                                              mk.array(I["Z"]), transform=token, threshold_dist=self._tau(I, mk))
        return {"out": out, "forwarded": np.array([1 if all(stub.calls) and stub.calls else 0], dtype=object)}

    def _pieces(self, I, ops):
        p = self.params
        nao, npts = p["nao"], p["npts"]
        P, V, T = I["P"], I["V"], I["T"]
        elec, dist = [], []
        for n in range(npts):
            tot = ops.zero
            if T is None:
                for a in range(nao):
                    for b in range(nao):
                        tot = tot + P[a][b] * V[a][b][n]
            else:
                norb = len(T)
                for i in range(norb):
                    for j in range(norb):
                        for a in range(nao):
                            for b in range(nao):
                                tot = tot + P[i][j] * T[i][a] * T[j][b] * V[a][b][n]
            elec.append(tot)
            row = []
            for R in I["nuc"]:
                d2 = sum(((I["pts"][n][x] - R[x]) * (I["pts"][n][x] - R[x]) for x in range(3)), ops.zero)
                row.append(ops.sqrt(d2))
            dist.append(row)
        return elec, dist

    def path_obligations(self, H, I, ops, mk, out):
        ctx = H.ctx
        if "__raises__" in out:
            H.fail(("raise", ()), f"raised {out['__raises__']}: {out.get('__trace__', '')[-300:]}")
            return
        elec, dist = self._pieces(I, ops)
        tau = I["tau"] if "tau" in I else core.lift(ctx, self.params.get("tau", 0.0))
        o = np.asarray(out["out"]).view(np.ndarray)
        nnuc = self.params["nnuc"]
        for n in range(len(elec)):
            for mask in itertools.product([False, True], repeat=nnuc):
                conds = []
                expect = -elec[n]
                for a in range(nnuc):
                    below = H.formula(dist[n][a] - tau, "<")
                    conds.append(below if mask[a] else Not(below))
                    if not mask[a]:
                        expect = expect + I["Z"][a] / dist[n][a]
                x, y = core.strip_common_L(core.lift(ctx, o[n]), core.lift(ctx, expect))
                neq = Rel("!=", core.diff_numerator(ctx, x, y))
                H.unsat(("out", (n,) + tuple(int(m) for m in mask)), And(*conds, neq),
                        f"wrong value when the nuclei with distance below the threshold are {mask}")
        f = np.asarray(out["forwarded"]).view(np.ndarray)
        if int(f[0]) == 1:
            H.ok(("forwarded", ()))
        else:
            H.fail(("forwarded", ()), "transform not forwarded to point_charge_integral")

    def ref_concrete(self, I, ops, mk):
        elec, dist = self._pieces(I, ops)
        tau = float(I["tau"]) if "tau" in I else float(self.params.get("tau", 0.0))
        vals = []
        for n in range(len(elec)):
            v = -elec[n]
            for a in range(self.params["nnuc"]):
                if not dist[n][a] < tau:
                    v += I["Z"][a] / dist[n][a]
            vals.append(v)
        return {"out": np.array(vals)}


class EspReal(Case):
    """end to end on the real point-charge code (s / p basis, tau = 0):  ESP == sum Z/d - sum P V_ref"""

    prop = "C14"
    canary_scale = "Ae0"
    rtol = 1e-7
    query_timeout = 120000

    @property
    def concrete(self):
        c = self.params.get("exps")
        pin = dict(self.params.get("pin") or {})  # Level-B concretisation of further named inputs (geometry)
        if not c and not pin:
            return None
        pin.update({f"{t}e{k}": v for t, vs in zip("ABCD", c or []) for k, v in enumerate(vs)})
        return pin

    def inputs(self, mk):
        p = self.params
        specs = cm.specs_from(mk, p)
        nb = sum(cm.nfun(l, t) * M for l, t, M in zip(p["ls"], p["types"], p["Ms"]))
        norb = p.get("norb")
        T = [[mk.var(f"T{i}_{a}") for a in range(nb)] for i in range(norb)] if norb else None
        return dict(specs=specs, P=sym_matrix(mk, norb or nb), T=T, pt=[mk.var("p" + x) for x in "xyz"],
                    nuc=[[mk.var(f"R{a}{x}") for x in "xyz"] for a in range(p["nnuc"])],
                    Z=[mk.var(f"Z{a}") for a in range(p["nnuc"])])

    def code(self, I, mk):
        from gbasis.evals.electrostatic_potential import electrostatic_potential

        basis = cm.basis_from(mk, I["specs"], self.params["types"])
        kw = {"transform": mk.array(I["T"])} if I["T"] is not None else {}
        return {"out": electrostatic_potential(basis, mk.array(I["P"]), mk.array([I["pt"]]), mk.array(I["nuc"]), mk.array(I["Z"]), **kw)}

    def ref(self, I, ops, mk):
        full = cm.ref_two_index(ops, I["specs"], self.params["types"], lambda A, B: G.nuclear_prim(ops, A, B, I["pt"]))
        tot = ops.zero
        T = I["T"]
        if T is not None:
            # transformed basis: V' = T V T^T (orbital i = sum_a T[i][a] chi_a), square or rectangular
            n = len(full)
            TV = [[sum((T[i][a] * full[a][b] for a in range(n)), ops.zero) for b in range(n)] for i in range(len(T))]
            full = [[sum((TV[i][b] * T[j][b] for b in range(n)), ops.zero) for j in range(len(T))] for i in range(len(T))]
        for a in range(len(full)):
            for b in range(len(full)):
                tot = tot - I["P"][a][b] * full[a][b]
        for R, Z in zip(I["nuc"], I["Z"]):
            d2 = sum(((I["pt"][x] - R[x]) * (I["pt"][x] - R[x]) for x in range(3)), ops.zero)
            tot = tot + Z / ops.sqrt(d2)
        return {"out": np.array([tot], dtype=object)}


class OnNucleus(Case):
    """a point exactly on a nucleus (concrete coincident coordinates, so numpy's own inf handling is observed):
    with a positive threshold that nucleus is left out whatever its charge"""

    prop = "C14"
    concrete_only = True

    def inputs(self, mk):
        return dict(mk=mk)

    def code(self, I, mk):
        import gbasis.evals.electrostatic_potential as esp

        p = self.params
        V = np.array([[[0.3]]])
        stub = pc_stub(V, None, None)
        shell = Esp._basis(self, mk, 1)
        old = np.geterr()
        with patched(stub) as m:
            out = m.electrostatic_potential(shell, np.array([[0.5]]), np.array([[0.1, 0.2, 0.3]]),
                                            np.array([[0.1, 0.2, 0.3], [1.0, 0.0, 0.0]]), np.array([float(p["Z0"]), 2.0]),
                                            threshold_dist=float(p["tau"]))
        np.seterr(**old)
        return {"out": out}

    def ref(self, I, ops, mk):
        d1 = ((0.1 - 1.0) ** 2 + 0.2 ** 2 + 0.3 ** 2) ** 0.5
        v = -0.5 * 0.3 + (2.0 / d1 if d1 >= float(self.params["tau"]) else 0.0)
        return {"out": np.array([v], dtype=object)}

    def replay_compare(self, label, idx, a, b):
        return not (abs(a - b) <= 1e-9)


def cases(tier, seed=0):
    out = []
    out.append(Esp(nao=2, npts=1, nnuc=1, tau="sym"))
    out.append(Esp(nao=2, npts=1, nnuc=2, tau="sym"))
    out.append(Esp(nao=2, npts=2, nnuc=1, tau="sym"))
    out.append(Esp(nao=2, npts=1, nnuc=2, tau=0.0))
    out.append(Esp(nao=2, npts=1, nnuc=1, tau="sym", zdom=">0"))
    # transformations: square and rectangular
    out.append(Esp(nao=2, npts=1, nnuc=1, tau=0.0, norb=2))
    out.append(Esp(nao=2, npts=1, nnuc=1, tau=0.0, norb=1))
    out.append(Esp(nao=2, npts=1, nnuc=1, tau=0.0, norb=3))
    out.append(OnNucleus(Z0="1.0", tau="0.5"))
    out.append(OnNucleus(Z0="-1.0", tau="0.5"))
    out.append(OnNucleus(Z0="3.0", tau="0.01"))
    out.append(EspReal(ls=[0, 0], types="cc", Ks=[1, 1], Ms=[1, 1], nnuc=1))
    out.append(EspReal(ls=[1], types="c", Ks=[1], Ms=[1], nnuc=2))
    # contracted shells with the primitives listed from diffuse to tight, concrete exponents
    out.append(EspReal(ls=[0, 0], types="cc", Ks=[2, 2], Ms=[1, 1], nnuc=1, exps=[["3/10", "5"], ["2/5", "11/4"]]))
    # real point-charge dispatch under a rectangular transformation of a mixed-type basis whose first shell is Cartesian and
    # whose d shell is spherical (seed C14e: the coordinate types must reach the transformed route shell by shell)
    out.append(EspReal(ls=[0, 2], types="cs", Ks=[1, 1], Ms=[1, 1], nnuc=1, norb=2, share={"1": 0}, exps=[["3/4"], ["5/4"]],
                       pin={"Ax": "1/10", "Ay": "-1/5", "Az": "3/10", "px": "7/10", "py": "1/2", "pz": "-2/5", "R0x": "1", "R0y": "1/5", "R0z": "-3/5"}))
    if tier == "thorough":
        out.append(Esp(nao=3, npts=2, nnuc=2, tau="sym"))
        out.append(Esp(nao=4, npts=1, nnuc=1, tau="sym", norb=2))
        out.append(Esp(nao=3, npts=1, nnuc=2, tau="sym", norb=3))
        out.append(EspReal(ls=[0, 1], types="cc", Ks=[2, 1], Ms=[1, 1], nnuc=2))
        out.append(EspReal(ls=[1, 0], types="sc", Ks=[1, 1], Ms=[1, 2], nnuc=1))
    return out


def main(tier="quick", seed=0, only=None):
    cs = cm.parse_only(cases(tier, seed), only)
    bounds = {
        "bookkeeping": "2-4 atomic orbitals (symbolic point-charge integrals), 1-2 points, 1-2 nuclei with symbolic charges of either sign, "
                       "symbolic threshold > 0 (every value, hence values bracketing every distance) and threshold 0; square and rectangular "
                       "transformations with symbolic entries (1x2, 2x2, 3x2, 2x4)",
        "on_nucleus": "three concrete inputs with a point exactly on a nucleus (charge +1, -1, +3)",
        "end_to_end": "real point-charge code under the routine for s/s, p (quick), s+p generalized and spherical p (thorough); "
                      "real dispatch under a 2x6 symbolic transformation of a Cartesian s + spherical d basis (geometry pinned, Level B)",
        "outside": "rounding; more than 2 nuclei per point (the mask is applied per nucleus independently)",
    }
    assumptions = ["real-number semantics", "points do not coincide with nuclei in the symbolic cases (distance atoms positive)",
                   "density matrix symmetric"]
    return run_property("C14", cs, tier, seed, ENCODED, bounds, assumptions, title="Electrostatic potential.")
