"""C02 - kinetic-energy integrals exact"""
import numpy as np

from refs import gauss as G
from sx.harness import Case, run_property, shell_spec, make_shell
from . import common as cm

ENCODED = [
    "gbasis.integrals._diff_operator_int:_compute_differential_operator_integrals_intermediate",
    "gbasis.integrals._diff_operator_int:_compute_differential_operator_integrals",
    "gbasis.integrals._moment_int:_compute_multipole_moment_integrals_intermediate",
    "gbasis.integrals._moment_int:_cleanup_intermediate_integrals",
    "gbasis.integrals.kinetic_energy:KineticEnergyIntegral.construct_array_contraction",
    "gbasis.integrals.kinetic_energy:kinetic_energy_integral",
    "gbasis.base_two_symm:BaseTwoIndexSymmetric.construct_array_cartesian",
    "gbasis.base_two_symm:BaseTwoIndexSymmetric.construct_array_spherical",
    "gbasis.base_two_symm:BaseTwoIndexSymmetric.construct_array_mix",
]


class Block(Case):
    """KineticEnergyIntegral block == -1/2 sum_axis <a| d2/dx2 |b> with the derivative applied to the RIGHT
    function in closed form (the code integrates by parts onto the left function with a padded table)"""

    prop = "C02"
    canary_scale = "Ae0"
    rtol = 1e-7

    @property
    def concrete(self):
        c = self.params.get("exps")
        if not c:
            return None
        return {f"{t}e{k}": v for t, vs in zip("AB", c) for k, v in enumerate(vs)}

    def inputs(self, mk):
        p = self.params
        return dict(sa=shell_spec(mk, "A", p["la"], p["Ka"], p["Ma"]), sb=shell_spec(mk, "B", p["lb"], p["Kb"], p["Mb"]))

    def code(self, I, mk):
        from gbasis.integrals.kinetic_energy import KineticEnergyIntegral

        a = make_shell(mk, I["sa"], normalise=False)
        b = make_shell(mk, I["sb"], normalise=False)
        return {"T": KineticEnergyIntegral.construct_array_contraction(a, b)}

    def ref(self, I, ops, mk):
        return {"T": np.array(G.contracted(ops, I["sa"], I["sb"], G.kinetic_prim(ops, I["sa"]["A"], I["sb"]["A"])), dtype=object)}


class Public(Case):
    prop = "C02"
    canary_scale = "Ae0"
    query_timeout = 120000
    rtol = 1e-7

    def inputs(self, mk):
        p = self.params
        specs = cm.specs_from(mk, p)
        return dict(specs=specs)

    def code(self, I, mk):
        from gbasis.integrals.kinetic_energy import kinetic_energy_integral

        basis = cm.basis_from(mk, I["specs"], self.params["types"])
        for i, j in self.params.get("share", {}).items():
            basis[int(i)]._coord = basis[j]._coord  # one coordinate array per atom, as make_contractions builds it
        out = {"T": kinetic_energy_integral(basis)}
        if self.params.get("twice"):
            out["T2"] = kinetic_energy_integral(basis)
        return out

    def ref(self, I, ops, mk):
        full = cm.ref_two_index(ops, I["specs"], self.params["types"], lambda A, B: G.kinetic_prim(ops, A, B))
        out = {"T": np.array(full, dtype=object)}
        if self.params.get("twice"):
            out["T2"] = out["T"]
        return out


def cases(tier):
    out = []
    for la in range(6):
        for lb in range(6):
            out.append(Block(la=la, lb=lb, Ka=1, Kb=1, Ma=1, Mb=1))
    for la, lb in [(0, 0), (1, 0), (0, 1), (1, 1), (2, 1), (1, 2)]:
        out.append(Block(la=la, lb=lb, Ka=2, Kb=1, Ma=1, Mb=2))
        out.append(Block(la=la, lb=lb, Ka=1, Kb=2, Ma=2, Mb=1))
    # equal l and equal column counts >= 2 on both sides (two different generalized shells; the centres are symbolic, so
    # "on one atom" is a path of the same run whenever the code asks)
    for l in (0, 1, 2):
        out.append(Block(la=l, lb=l, Ka=1, Kb=2 if l < 2 else 1, Ma=2, Mb=2))
    out.append(Public(ls=[1, 1, 0], types="csc", Ks=[1, 2, 1], Ms=[2, 2, 1], share={"1": 0}))
    out.append(Public(ls=[0, 1], types="cc", Ks=[2, 1], Ms=[1, 2]))
    out.append(Public(ls=[2], types="s", Ks=[1], Ms=[2]))
    out.append(Public(ls=[2, 1], types="sc", Ks=[1, 1], Ms=[1, 1]))
    out.append(Public(ls=[1, 2], types="cs", Ks=[1, 1], Ms=[1, 1]))
    # a "molecule": two shells on one atom (sharing its coordinate array) and one on another atom, evaluated twice
    out.append(Public(ls=[0, 1, 0], types="ccc", Ks=[1, 1, 1], Ms=[1, 1, 1], share={"1": 0}, twice=True))
    out.append(Public(ls=[0, 1, 2, 0], types="csss", Ks=[2, 1, 1, 1], Ms=[1, 1, 1, 1], share={"1": 0, "3": 2}))
    # homonuclear: the same shell parameters on two centres
    out.append(Public(ls=[1, 1, 0], types="ccc", Ks=[1, 1, 1], Ms=[1, 1, 1], twin={"1": 0}, share={"2": 0}))
    if tier == "thorough":
        E = cm.EXP_POOL
        for la in range(4):
            for lb in range(4):
                if la + lb <= 2:
                    out.append(Block(la=la, lb=lb, Ka=2, Kb=2, Ma=2, Mb=2))
                else:  # Level B: concrete exponents, everything else symbolic
                    out.append(Block(la=la, lb=lb, Ka=2, Kb=2, Ma=2, Mb=2,
                                     exps=[[str(E[(la + k) % 6]) for k in range(2)], [str(E[(lb + 3 + 2 * k) % 6]) for k in range(2)]]))
        for la, lb in [(0, 0), (1, 0), (1, 1), (2, 0)]:
            if la + lb <= 1:
                out.append(Block(la=la, lb=lb, Ka=3, Kb=2, Ma=1, Mb=3))
            else:
                out.append(Block(la=la, lb=lb, Ka=3, Kb=2, Ma=1, Mb=3, exps=[["3/2", "1/50", "5"], ["7/10", "11/4"]]))
        out.append(Public(ls=[3], types="s", Ks=[1], Ms=[1]))
        out.append(Public(ls=[2, 2], types="sc", Ks=[1, 2], Ms=[1, 1]))
        out.append(Public(ls=[0, 1, 2], types="csc", Ks=[1, 1, 1], Ms=[1, 1, 1]))
        out.append(Public(ls=[3, 1], types="cs", Ks=[1, 1], Ms=[1, 1]))
    return out


def main(tier="quick", seed=0, only=None):
    cs = cm.parse_only(cases(tier), only)
    bounds = {
        "angular_momenta": "block level: every (la, lb) in 0..5 x 0..5 enumerated, Level A (all continuous inputs symbolic)",
        "primitives": "K <= 2 (quick), <= 3 (thorough)", "segments": "M <= 2 (quick), <= 3 (thorough)",
        "public": "1-3 shells, l <= 2 (quick) / <= 3 (thorough), cartesian / spherical / mixed",
        "outside": "floating-point rounding; larger K, M, shell counts",
    }
    assumptions = ["real-number semantics", "exponents > 0, coefficients != 0", "factorial2 stub = exact contract"]
    return run_property("C02", cs, tier, seed, ENCODED, bounds, assumptions, title="Kinetic-energy exactness.")
