"""C16 - analytic integrals and pointwise evaluations describe the same functions.

Exact interpolatory quadrature, code vs code: the evaluation routines are executed at the (n+1)^3 points
P + (j1, j2, j3) (P = centre of the product Gaussian, symbolic), the Gaussian factor exp(-p t^2) is divided out
(the solver proves that the remaining exponent is the constant -mu |A-B|^2) and the values are summed with the
weights  w_j = prod_axes int l_j(t) exp(-p t^2) dt  of the tensor-product Lagrange basis on the nodes 0..n - a rule
that is exact for the polynomial degrees present.  The sum must equal the analytic integral element-wise.
"""
import itertools
from fractions import Fraction

import numpy as np

from refs import gauss as G
from sx import core
from sx.harness import Case, run_property, shell_spec
from . import common as cm
from .c06 import sym_matrix

ENCODED = [
    "gbasis.evals.eval:evaluate_basis",
    "gbasis.evals.eval_deriv:evaluate_deriv_basis",
    "gbasis.evals._deriv:_eval_deriv_contractions",
    "gbasis.evals.density:evaluate_density_using_evaluated_orbs",
    "gbasis.evals.density:evaluate_deriv_reduced_density_matrix",
    "gbasis.integrals.overlap:overlap_integral",
    "gbasis.integrals.moment:moment_integral",
    "gbasis.integrals.kinetic_energy:kinetic_energy_integral",
    "gbasis.contractions:GeneralizedContractionShell.assign_norm_cont",
]


def lagrange_coeffs(n):
    """coefficients (ascending powers, Fractions) of the Lagrange basis polynomials on the nodes 0..n"""
    out = []
    for j in range(n + 1):
        poly = [Fraction(1)]
        den = Fraction(1)
        for m in range(n + 1):
            if m == j:
                continue
            # multiply by (t - m)
            new = [Fraction(0)] * (len(poly) + 1)
            for k, c in enumerate(poly):
                new[k + 1] += c
                new[k] -= c * m
            poly = new
            den *= (j - m)
        out.append([c / den for c in poly])
    return out


def weights_1d(ops, p, n):
    """w_j = int l_j(t) exp(-p t^2) dt, j = 0..n"""
    sq = ops.sqrt(ops.pi / p)
    ws = []
    for coeffs in lagrange_coeffs(n):
        tot = ops.zero
        for k, c in enumerate(coeffs):
            if k % 2 or c == 0:
                continue
            term = ops.const(c * G.df(k - 1)) if not isinstance(p, float) else float(c * G.df(k - 1))
            if k:
                term = term / (2 * p) ** (k // 2)
            tot = tot + term
        ws.append(tot * sq)
    return ws


def strip_gauss(mk, val, p, t):
    """value * exp(+p |t|^2)"""
    t2 = t[0] * t[0] + t[1] * t[1] + t[2] * t[2]
    if mk.symbolic:
        v = core.lift(mk.ctx, val)
        if v.k == 0:
            return v
        L = (v.L if v.L is not None else core.ZERO(mk.ctx)) + p * t2
        return core.Sym(mk.ctx, v.k, v.n, v.d, L)
    import math

    return val * math.exp(p * t2)


class Quad(Case):
    prop = "C16"
    rtol = 1e-7
    # the float run of this harness sums interpolatory weights on an equidistant grid of degree up to 8 (alternating,
    # ill-conditioned): it loses up to four digits, which says nothing about the encoding; the symbolic run is exact
    conformance_tol = 1e-3

    @property
    def canary_scale(self):
        return "P0_0" if self.params["what"] == "density" else "Ae0"

    query_timeout = 120000
    unify_timeout = 20000

    def inputs(self, mk):
        p = self.params
        specs = [shell_spec(mk, "AB"[i], l, 1, M) for i, (l, M) in enumerate(zip(p["ls"], p["Ms"]))]
        I = dict(specs=specs, C=[mk.var("C" + x) for x in "xyz"])
        if p["what"] in ("density", "ked"):
            nb = sum(cm.nfun(l, t) * M for l, t, M in zip(p["ls"], p["types"], p["Ms"]))
            I["P"] = sym_matrix(mk, nb)
        return I

    def _degree(self):
        p = self.params
        extra = {"overlap": 0, "moment": max(max(o) for o in p.get("orders", [[0, 0, 0]])), "kinetic": 2, "density": 0, "ked": 2}[p["what"]]
        return 2 * max(p["ls"]) + extra

    def _pairs(self):
        n = len(self.params["ls"])
        return [(i, j) for i in range(n) for j in range(i, n)]

    def code(self, I, mk):
        from gbasis.evals.eval import evaluate_basis
        from gbasis.evals.eval_deriv import evaluate_deriv_basis
        from gbasis.evals.density import evaluate_density_using_evaluated_orbs, evaluate_deriv_reduced_density_matrix

        p = self.params
        what = p["what"]
        basis = cm.basis_from(mk, I["specs"], p["types"])
        ops = self._ops(mk)
        sizes = [cm.nfun(l, t) * M for l, t, M in zip(p["ls"], p["types"], p["Ms"])]
        offs = np.concatenate([[0], np.cumsum(sizes)])
        N = int(offs[-1])
        n = self._degree()
        nodes = list(itertools.product(range(n + 1), repeat=3))
        shape = (N, N) if what in ("overlap", "kinetic") else ((N, N, len(p["orders"])) if what == "moment" else (1,))
        out = np.empty(shape, dtype=object)
        out.fill(ops.zero)
        for (i, j) in self._pairs():
            sa, sb = I["specs"][i], I["specs"][j]
            a, b = sa["exps"][0], sb["exps"][0]
            pp = a + b
            Pc = [(a * sa["A"][x] + b * sb["A"][x]) / pp for x in range(3)]
            w1 = weights_1d(ops, pp, n)
            pts = mk.array([[Pc[x] + t[x] for x in range(3)] for t in nodes])
            if what in ("overlap", "moment"):
                V = np.asarray(evaluate_basis(basis, pts)).view(np.ndarray)
            elif what == "kinetic":
                D = [np.asarray(evaluate_deriv_basis(basis, pts, np.array(o))).view(np.ndarray) for o in ([1, 0, 0], [0, 1, 0], [0, 0, 1])]
            elif what in ("density", "ked"):
                # the integral is linear in P: one quadrature per shell pair with P restricted to that pair's blocks
                # (a symmetric matrix with zero diagonal blocks when i != j), so that one Gaussian product is left
                Pm = [[I["P"][r][c] if ((offs[i] <= r < offs[i + 1] and offs[j] <= c < offs[j + 1])
                                         or (offs[j] <= r < offs[j + 1] and offs[i] <= c < offs[i + 1])) else ops.zero
                       for c in range(N)] for r in range(N)]
                if what == "density":
                    V = np.asarray(evaluate_basis(basis, pts)).view(np.ndarray)
                    rho = np.asarray(evaluate_density_using_evaluated_orbs(mk.array(Pm), mk.array(V) if mk.symbolic else V)).view(np.ndarray)
                else:
                    rho = None
                    for o in ([1, 0, 0], [0, 1, 0], [0, 0, 1]):
                        r = np.asarray(evaluate_deriv_reduced_density_matrix(np.array(o), np.array(o), mk.array(Pm), basis, pts)).view(np.ndarray)
                        rho = r if rho is None else rho + r
            for k, t in enumerate(nodes):
                w = w1[t[0]] * w1[t[1]] * w1[t[2]]
                if what in ("density", "ked"):
                    val = rho[k] if what == "density" else rho[k] / 2
                    out[0] = out[0] + w * strip_gauss(mk, val, pp, t)
                    continue
                for fa in range(offs[i], offs[i + 1]):
                    for fb in range(offs[j], offs[j + 1]):
                        if what == "overlap":
                            v = strip_gauss(mk, V[fa, k] * V[fb, k], pp, t) * w
                            out[fa, fb] = out[fa, fb] + v
                        elif what == "kinetic":
                            g = D[0][fa, k] * D[0][fb, k] + D[1][fa, k] * D[1][fb, k] + D[2][fa, k] * D[2][fb, k]
                            out[fa, fb] = out[fa, fb] + strip_gauss(mk, g, pp, t) * w / 2
                        else:
                            base = strip_gauss(mk, V[fa, k] * V[fb, k], pp, t) * w
                            for io, o in enumerate(p["orders"]):
                                f = ops.one
                                for x in range(3):
                                    f = f * (Pc[x] + t[x] - I["C"][x]) ** o[x]
                                out[fa, fb, io] = out[fa, fb, io] + base * f
            if what not in ("density", "ked") and i != j:
                for fa in range(offs[i], offs[i + 1]):
                    for fb in range(offs[j], offs[j + 1]):
                        out[fb, fa] = out[fa, fb]
        return {"Q": out}

    def _ops(self, mk):
        from sx import harness

        return harness._symops(mk.ctx) if mk.symbolic else G.FloatOps

    def ref(self, I, ops, mk):
        from gbasis.integrals.overlap import overlap_integral
        from gbasis.integrals.kinetic_energy import kinetic_energy_integral
        from gbasis.integrals.moment import moment_integral

        p = self.params
        basis = cm.basis_from(mk, I["specs"], p["types"])
        what = p["what"]
        if what == "overlap":
            return {"Q": overlap_integral(basis)}
        if what == "kinetic":
            return {"Q": kinetic_energy_integral(basis)}
        if what == "moment":
            return {"Q": moment_integral(basis, mk.array(I["C"]), np.array(p["orders"], dtype=int))}
        M = np.asarray(overlap_integral(basis) if what == "density" else kinetic_energy_integral(basis)).view(np.ndarray)
        tot = ops.zero
        for a in range(M.shape[0]):
            for b in range(M.shape[1]):
                tot = tot + I["P"][a][b] * M[a, b]
        return {"Q": np.array([tot], dtype=object)}


def cases(tier, seed=0):
    out = []
    out.append(Quad(what="overlap", ls=[1, 0], types="cc", Ms=[1, 1]))
    out.append(Quad(what="overlap", ls=[1, 1], types="cs", Ms=[1, 2]))
    out.append(Quad(what="overlap", ls=[2], types="s", Ms=[1]))
    out.append(Quad(what="moment", ls=[1, 0], types="cc", Ms=[1, 1], orders=[[1, 0, 0], [0, 1, 1]]))
    out.append(Quad(what="moment", ls=[1], types="c", Ms=[1], orders=[[2, 0, 0], [0, 1, 1]]))
    out.append(Quad(what="moment", ls=[0, 1], types="cc", Ms=[1, 1], orders=[[2, 0, 0], [0, 0, 2], [1, 1, 0]]))
    out.append(Quad(what="kinetic", ls=[1, 0], types="cc", Ms=[1, 1]))
    out.append(Quad(what="kinetic", ls=[1], types="s", Ms=[1]))
    out.append(Quad(what="density", ls=[1], types="c", Ms=[1]))
    out.append(Quad(what="ked", ls=[1], types="c", Ms=[1]))
    # two centres: the cross terms of the density (off-diagonal overlaps) contribute to the integral
    out.append(Quad(what="density", ls=[0, 0], types="cc", Ms=[2, 1]))
    out.append(Quad(what="density", ls=[0, 1], types="cc", Ms=[1, 1]))
    if tier == "thorough":
        out.append(Quad(what="overlap", ls=[2, 1], types="sc", Ms=[1, 1]))
        out.append(Quad(what="overlap", ls=[2, 2], types="cs", Ms=[1, 1]))
        out.append(Quad(what="overlap", ls=[3], types="c", Ms=[1]))
        out.append(Quad(what="moment", ls=[2, 1], types="cc", Ms=[1, 1], orders=[[1, 0, 1], [0, 2, 0]]))
        out.append(Quad(what="kinetic", ls=[2, 1], types="cs", Ms=[1, 1]))
        out.append(Quad(what="kinetic", ls=[2], types="c", Ms=[2]))
        out.append(Quad(what="density", ls=[2], types="s", Ms=[1]))
        out.append(Quad(what="ked", ls=[2], types="c", Ms=[1]))
    return out


def main(tier="quick", seed=0, only=None):
    cs = cm.parse_only(cases(tier, seed), only)
    bounds = {
        "functions": "single-primitive shells (K = 1, M <= 2 columns), 1-2 shells, l <= 1 (one l = 2 spherical shell) quick / l <= 2 (one l = 3) thorough, "
                     "cartesian / spherical / mixed; exponents, centres, coefficients, moment origin and density matrix symbolic",
        "quantities": "overlap and moments (orders <= 2) from products of values, kinetic matrix from half the products of gradients, "
                      "int rho = tr(P S) and int tau+ = tr(P T) for a single shell (one product Gaussian)",
        "rule": "tensor-product interpolatory rule on the nodes P + {0..n}^3, n = polynomial degree per axis; exact in real arithmetic",
        "outside": "contracted functions with K > 1 (several product Gaussians per element; they follow from C13's linearity); the trapezoid-rule "
                   "convergence clause of the property text (a floating-point statement)",
    }
    assumptions = ["real-number semantics", "the Gaussian factor is divided out symbolically; the solver proves the leftover exponents equal"]
    return run_property("C16", cs, tier, seed, ENCODED, bounds, assumptions, title="Integrals vs evaluations (exact quadrature).")
