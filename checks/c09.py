"""C09 - spherical / mixed / linearly transformed results derive from the Cartesian ones.

(a) Assembly logic of the four base classes on labelled dummy blocks: `construct_array_contraction`
    returns a fresh symbol per (function, function, ...) entry, shells have distinct (l, M) so all block
    shapes differ, `norm_cont` is symbolic, and shell subclasses report their Cartesian / spherical
    components in another order / sign convention.  Expected = base tensor of the symbols with, per basis
    index, the matrix  [norm_cont x (identity | independent solid-harmonic matrix)]  and then T.
(b) Per public module on the real kernels: mixed-type public result == all-Cartesian public result
    transformed with the independent solid-harmonic matrices (checks the dispatch in every *_integral /
    evaluate_* function and that keyword arguments reach the kernels).
"""
import itertools

import numpy as np

from refs import gauss as G
from refs import harmonics as H
from sx.harness import Case, run_property, shell_spec, make_shell
from . import common as cm

ENCODED = [
    "gbasis.base_one:BaseOneIndex.construct_array_cartesian",
    "gbasis.base_one:BaseOneIndex.construct_array_spherical",
    "gbasis.base_one:BaseOneIndex.construct_array_mix",
    "gbasis.base_one:BaseOneIndex.construct_array_lincomb",
    "gbasis.base_two_symm:BaseTwoIndexSymmetric.construct_array_cartesian",
    "gbasis.base_two_symm:BaseTwoIndexSymmetric.construct_array_spherical",
    "gbasis.base_two_symm:BaseTwoIndexSymmetric.construct_array_mix",
    "gbasis.base_two_symm:BaseTwoIndexSymmetric.construct_array_lincomb",
    "gbasis.base_two_asymm:BaseTwoIndexAsymmetric.construct_array_cartesian",
    "gbasis.base_two_asymm:BaseTwoIndexAsymmetric.construct_array_spherical",
    "gbasis.base_two_asymm:BaseTwoIndexAsymmetric.construct_array_mix",
    "gbasis.base_two_asymm:BaseTwoIndexAsymmetric.construct_array_lincomb",
    "gbasis.base_four_symm:BaseFourIndexSymmetric.construct_array_cartesian",
    "gbasis.base_four_symm:BaseFourIndexSymmetric.construct_array_spherical",
    "gbasis.base_four_symm:BaseFourIndexSymmetric.construct_array_mix",
    "gbasis.base_four_symm:BaseFourIndexSymmetric.construct_array_lincomb",
    "gbasis.spherical:generate_transformation",
    "gbasis.spherical:real_solid_harmonic",
    "gbasis.contractions:GeneralizedContractionShell.angmom_components_cart",
    "gbasis.contractions:GeneralizedContractionShell.angmom_components_sph",
]


def _perm(seq, k):
    """deterministic k-th 'convention': rotate by k and swap the first two (k = 9: reversed)"""
    seq = list(seq)
    if k == 0 or len(seq) < 2:
        return seq
    if k == 9:
        return seq[::-1]
    k = k % len(seq)
    seq = seq[k:] + seq[:k]
    seq[0], seq[1] = seq[1], seq[0]
    return seq


def _sph_convention(l, k):
    labs = H.default_sph_labels(l)
    if k in (0, 9):  # 9: only the Cartesian order differs from the default
        return labs
    labs = _perm(labs, k)
    return [("-" + x) if (i + k) % 3 == 0 else x for i, x in enumerate(labs)]


def _shell_class(conv):
    from gbasis.contractions import GeneralizedContractionShell

    if not conv:
        return GeneralizedContractionShell

    class ConvShell(GeneralizedContractionShell):
        @property
        def angmom_components_cart(self):
            base = [tuple(int(v) for v in t) for t in GeneralizedContractionShell.angmom_components_cart.fget(self)]
            return np.array(_perm(base, conv))

        @property
        def angmom_components_sph(self):
            return tuple(_sph_convention(self.angmom, conv))

    return ConvShell


class Dummy(Case):
    """assembly of base class `kind` on labelled dummy blocks"""

    prop = "C09"
    canary_scale = None
    query_timeout = 30000
    conformance = False

    def inputs(self, mk):
        p = self.params
        shells = []
        for i, (l, M) in enumerate(zip(p["ls"], p["Ms"])):
            L = (l + 1) * (l + 2) // 2
            shells.append(dict(l=l, M=M, tag=i, norm=[[mk.var(f"n{i}_{m}_{c}") for c in range(L)] for m in range(M)]))
        nf = sum(cm.nfun(l, t) * M for l, t, M in zip(p["ls"], p["types"], p["Ms"]))
        T = None
        if p.get("nt"):
            T = [[mk.var(f"T{a}_{b}") for b in range(nf)] for a in range(p["nt"])]
        I = dict(shells=shells, T=T)
        if p["kind"] == "two_asymm":
            shells2 = []
            for i, (l, M) in enumerate(zip(p["ls2"], p["Ms2"])):
                L = (l + 1) * (l + 2) // 2
                shells2.append(dict(l=l, M=M, tag=100 + i, norm=[[mk.var(f"m{i}_{m}_{c}") for c in range(L)] for m in range(M)]))
            nf2 = sum(cm.nfun(l, t) * M for l, t, M in zip(p["ls2"], p["types2"], p["Ms2"]))
            I["shells2"] = shells2
            I["T2"] = [[mk.var(f"S{a}_{b}") for b in range(nf2)] for a in range(p["nt"])] if p.get("nt") else None
        # table of block symbols, created lazily by key
        I["table"] = {}
        I["mk"] = mk
        return I

    # -- symbols
    def _sym(self, I, key):
        t = I["table"]
        if key not in t:
            t[key] = I["mk"].var("u_" + "_".join(str(x) for x in _flat(key)))
        return t[key]

    def _canon(self, keys, extra):
        kind = self.params["kind"]
        if kind == "two_symm":
            keys = tuple(sorted(keys))
        elif kind == "four_symm":
            a, b, c, d = keys
            p1, p2 = tuple(sorted((a, b))), tuple(sorted((c, d)))
            keys = tuple(sorted((p1, p2)))
        return (tuple(keys), extra)

    def _objs(self, I, mk):
        p = self.params
        out = []
        for key, types in (("shells", p["types"]), ("shells2", p.get("types2"))):
            if key not in I:
                continue
            objs = []
            for ish, (s, t) in enumerate(zip(I[key], types)):
                cls = _shell_class(self._conv_of(key, ish))
                o = cls.__new__(cls)
                o._angmom = s["l"]
                o._coord = None
                o._coeffs = np.zeros((1, s["M"]))
                o._exps = np.zeros(1)
                o.coord_type = cm.LETTER[t]
                o.norm_cont = mk.array(s["norm"])
                o.tag = s["tag"]
                objs.append(o)
            out.append(objs)
        return out

    def _conv_of(self, key, ish):
        p = self.params
        if "convs" in p and key == "shells":
            return p["convs"][ish]
        return p.get("conv", 0)

    def code(self, I, mk):
        p = self.params
        kind = p["kind"]
        from gbasis.base_one import BaseOneIndex
        from gbasis.base_two_symm import BaseTwoIndexSymmetric
        from gbasis.base_two_asymm import BaseTwoIndexAsymmetric
        from gbasis.base_four_symm import BaseFourIndexSymmetric

        case = self
        extra = tuple(p.get("extra", ()))
        nidx = {"one": 1, "two_symm": 2, "two_asymm": 2, "four_symm": 4}[kind]
        seen_kwargs = []

        def block(*shells, **kw):
            seen_kwargs.append(kw)
            shape = []
            for s in shells:
                shape += [s.num_seg_cont, s.num_cart]
            shape += list(extra)
            arr = np.empty(shape, dtype=object)
            comps = [[tuple(int(v) for v in t) for t in s.angmom_components_cart] for s in shells]
            for idx in np.ndindex(*shape):
                keys = tuple((shells[i].tag, idx[2 * i], comps[i][idx[2 * i + 1]]) for i in range(len(shells)))
                arr[idx] = case._sym(I, case._canon(keys, tuple(idx[2 * len(shells):])))
            blk = mk.array(arr) if mk.symbolic else arr.astype(float)
            # the real contraction routines return transposed views: hand the block out with a non-contiguous memory
            # layout (same logical content), so that reshape-as-view assumptions in the assembly code show
            rev = list(range(blk.ndim))[::-1]
            return blk.transpose(rev).copy().transpose(rev)

        base = {"one": BaseOneIndex, "two_symm": BaseTwoIndexSymmetric, "two_asymm": BaseTwoIndexAsymmetric,
                "four_symm": BaseFourIndexSymmetric}[kind]
        Sub = type("DummyArray", (base,), {"construct_array_contraction": staticmethod(block)})
        objs = self._objs(I, mk)
        inst = Sub(*objs)
        types = [cm.LETTER[t] for t in p["types"]]
        via = p.get("via", "auto")
        kw = {"flag": 7}
        if kind == "two_asymm":
            types2 = [cm.LETTER[t] for t in p["types2"]]
            T1 = mk.array(I["T"]) if I["T"] is not None else None
            T2 = mk.array(I["T2"]) if I.get("T2") is not None else None
            if via == "mix":
                out = inst.construct_array_mix(types, types2, **kw)
            else:
                out = inst.construct_array_lincomb(T1, T2, types, types2, **kw)
        elif I["T"] is not None:
            out = inst.construct_array_lincomb(mk.array(I["T"]), types, **kw)
        elif via == "mix":
            out = inst.construct_array_mix(types, **kw)
        elif all(t == "cartesian" for t in types):
            out = inst.construct_array_cartesian(**kw)
        elif all(t == "spherical" for t in types):
            out = inst.construct_array_spherical(**kw)
        else:
            out = inst.construct_array_mix(types, **kw)
        ok = all(k == kw for k in seen_kwargs) and len(seen_kwargs) > 0
        return {"A": out, "kwargs_forwarded": np.array([1 if ok else 0], dtype=object)}

    def _weights(self, I, ops, key, types, Tkey):
        """matrix W[f][j] over flattened cartesian primitives-functions j = (shell, m, c) and the list of those keys"""
        cart_keys = []
        rows = []
        for ish, (s, t) in enumerate(zip(I[key], types)):
            conv = self._conv_of(key, ish)
            co = _perm(G.comps(s["l"]), conv)
            base = len(cart_keys)
            for m in range(s["M"]):
                for c, comp in enumerate(co):
                    cart_keys.append((s["tag"], m, comp))
            L = len(co)
            if t == "s":
                T = H.transformation(ops, s["l"], co, _sph_convention(s["l"], conv))
            for m in range(s["M"]):
                if t == "c":
                    for c in range(L):
                        rows.append({base + m * L + c: s["norm"][m][c]})
                else:
                    for r in range(len(T)):
                        rows.append({base + m * L + c: T[r][c] * s["norm"][m][c] for c in range(L)})
        n = len(cart_keys)
        W = np.empty((len(rows), n), dtype=object)
        W.fill(ops.zero)
        for i, r in enumerate(rows):
            for j, v in r.items():
                W[i, j] = v
        if I.get(Tkey) is not None:
            W = np.dot(np.array(I[Tkey], dtype=object), W)
        return W, cart_keys

    def ref(self, I, ops, mk):
        p = self.params
        kind = p["kind"]
        extra = tuple(p.get("extra", ()))
        W1, keys1 = self._weights(I, ops, "shells", p["types"], "T")
        if kind == "two_asymm":
            W2, keys2 = self._weights(I, ops, "shells2", p["types2"], "T2")
            Ws, keysets = [W1, W2], [keys1, keys2]
        else:
            nidx = {"one": 1, "two_symm": 2, "four_symm": 4}[kind]
            Ws, keysets = [W1] * nidx, [keys1] * nidx
        shape = [len(k) for k in keysets] + list(extra)
        U = np.empty(shape, dtype=object)
        for idx in np.ndindex(*shape):
            keys = tuple(keysets[i][idx[i]] for i in range(len(keysets)))
            U[idx] = self._sym(I, self._canon(keys, tuple(idx[len(keysets):])))
        out = U
        for ax, W in enumerate(Ws):
            out = np.moveaxis(np.tensordot(W, out, (1, ax)), 0, ax)
        return {"A": out, "kwargs_forwarded": np.array([1], dtype=object)}


def _flat(key):
    out = []
    for k in key:
        if isinstance(k, tuple):
            out += _flat(k)
        else:
            out.append(k)
    return out


# ---- (b) public modules on real kernels ---------------------------------------------------------


def _public_call(name, basis, I, mk, transform=None):
    if name == "overlap":
        from gbasis.integrals.overlap import overlap_integral
        return overlap_integral(basis, transform=transform)
    if name == "kinetic":
        from gbasis.integrals.kinetic_energy import kinetic_energy_integral
        return kinetic_energy_integral(basis, transform=transform)
    if name == "moment":
        from gbasis.integrals.moment import moment_integral
        return moment_integral(basis, mk.array(I["C"]), np.array([[1, 0, 1], [0, 2, 0]], dtype=int), transform=transform)
    if name == "momentum":
        from gbasis.integrals.momentum import momentum_integral
        return momentum_integral(basis, transform=transform)
    if name == "angmom":
        from gbasis.integrals.angular_momentum import angular_momentum_integral
        return angular_momentum_integral(basis, transform=transform)
    if name == "point_charge":
        from gbasis.integrals.point_charge import point_charge_integral
        return point_charge_integral(basis, mk.array([I["C"], I["P"]]), mk.array(I["q"]), transform=transform)
    if name == "nuclear":
        from gbasis.integrals.nuclear_electron_attraction import nuclear_electron_attraction_integral
        return nuclear_electron_attraction_integral(basis, mk.array([I["C"], I["P"]]), mk.array(I["q"]), transform=transform)
    if name == "eri":
        from gbasis.integrals.electron_repulsion import electron_repulsion_integral
        return electron_repulsion_integral(basis, transform=transform, notation="chemist")
    if name == "eri_phys":
        from gbasis.integrals.electron_repulsion import electron_repulsion_integral
        return electron_repulsion_integral(basis, transform=transform)
    if name == "eval":
        from gbasis.evals.eval import evaluate_basis
        return evaluate_basis(basis, mk.array([I["P"], I["C"]]), transform=transform)
    if name == "eval_deriv":
        from gbasis.evals.eval_deriv import evaluate_deriv_basis
        return evaluate_deriv_basis(basis, mk.array([I["P"]]), np.array([1, 0, 1]), transform=transform)
    if name == "eval_deriv_direct":
        from gbasis.evals.eval_deriv import evaluate_deriv_basis
        return evaluate_deriv_basis(basis, mk.array([I["P"]]), np.array([0, 2, 1]), transform=transform, deriv_type="direct")
    raise KeyError(name)


NIDX = {"overlap": 2, "kinetic": 2, "moment": 2, "momentum": 2, "angmom": 2, "point_charge": 2, "nuclear": 2,
        "eri": 4, "eri_phys": 4, "eval": 1, "eval_deriv": 1, "eval_deriv_direct": 1}


class PublicDispatch(Case):
    """module(mixed-type basis [, transform T]) == T . W . module(all-Cartesian basis) on every basis index,
    W = independent solid-harmonic matrices per spherical shell (code vs code + reference harmonics)"""

    prop = "C09"
    canary_scale = "Ae0"
    query_timeout = 120000
    rtol = 1e-7

    def inputs(self, mk):
        p = self.params
        specs = cm.specs_from(mk, p)
        nf = sum(cm.nfun(l, t) * M for l, t, M in zip(p["ls"], p["types"], p["Ms"]))
        T = [[mk.var(f"T{a}_{b}") for b in range(nf)] for a in range(p["nt"])] if p.get("nt") else None
        return dict(specs=specs, T=T, C=[mk.var("C" + x) for x in "xyz"], P=[mk.var("P" + x) for x in "xyz"],
                    q=[mk.var("q0"), mk.var("q1")])

    def code(self, I, mk):
        basis = cm.basis_from(mk, I["specs"], self.params["types"])
        T = mk.array(I["T"]) if I["T"] is not None else None
        return {"A": _public_call(self.params["module"], basis, I, mk, transform=T)}

    def ref(self, I, ops, mk):
        p = self.params
        basis = cm.basis_from(mk, I["specs"], "c" * len(I["specs"]))
        A = np.asarray(_public_call(p["module"], basis, I, mk)).view(np.ndarray)
        if A.dtype != object:
            A = A.astype(object)
        rows = []
        ncart = sum(len(G.comps(l)) * M for l, M in zip(p["ls"], p["Ms"]))
        base = 0
        for s, t in zip(I["specs"], p["types"]):
            L = len(G.comps(s["l"]))
            M = len(s["coeffs"][0])
            if t == "s":
                Tm = H.transformation(ops, s["l"], G.comps(s["l"]), H.default_sph_labels(s["l"]))
            for m in range(M):
                if t == "c":
                    for c in range(L):
                        rows.append({base + m * L + c: ops.one})
                else:
                    for r in range(len(Tm)):
                        rows.append({base + m * L + c: Tm[r][c] for c in range(L)})
            base += M * L
        W = np.empty((len(rows), ncart), dtype=object)
        W.fill(ops.zero)
        for i, r in enumerate(rows):
            for j, v in r.items():
                W[i, j] = v
        if I["T"] is not None:
            W = np.dot(np.array(I["T"], dtype=object), W)
        name = p["module"]
        axes = list(range(NIDX[name]))
        out = A
        for ax in axes:
            out = np.moveaxis(np.tensordot(W, out, (1, ax)), 0, ax)
        return {"A": out}


def cases(tier):
    out = []
    # (a) dummy blocks -- every cart/sph assignment of 1-3 shells (enumerated), distinct (l, M) per shell
    shellsets = {1: [([2], [2])], 2: [([1, 2], [2, 1]), ([2, 0], [1, 2])], 3: [([0, 2, 1], [2, 1, 3])]}
    if tier == "thorough":
        shellsets[2].append(([3, 1], [1, 2]))
        shellsets[3].append(([1, 0, 2], [1, 2, 2]))
        shellsets[4] = [([1, 0, 2, 1], [1, 2, 1, 2])]
    for kind in ("one", "two_symm"):
        for n, sets in shellsets.items():
            for ls, Ms in sets:
                for types in itertools.product("cs", repeat=n):
                    t = "".join(types)
                    extra = [2] if kind == "two_symm" else [3]
                    out.append(Dummy(kind=kind, ls=ls, Ms=Ms, types=t, extra=extra))
                    if "s" in t and "c" in t:
                        continue
                    # homogeneous assignments also through construct_array_mix
                    out.append(Dummy(kind=kind, ls=ls, Ms=Ms, types=t, extra=[], via="mix"))
        # lincomb with rectangular T, and caller conventions
        out.append(Dummy(kind=kind, ls=[1, 2], Ms=[2, 1], types="cs", extra=[2], nt=3))
        out.append(Dummy(kind=kind, ls=[1, 2], Ms=[2, 1], types="ss", extra=[], nt=4))
        out.append(Dummy(kind=kind, ls=[1, 0], Ms=[1, 2], types="cc", extra=[], nt=2))
        # shells of the same l with different conventions side by side (default next to a reordered one)
        out.append(Dummy(kind=kind, ls=[2, 2, 1], Ms=[1, 1, 1], types="ssc", extra=[], convs=[0, 9, 0]))
        out.append(Dummy(kind=kind, ls=[2, 2], Ms=[1, 2], types="ss", extra=[2], convs=[9, 0]))
        out.append(Dummy(kind=kind, ls=[1, 1, 2], Ms=[1, 1, 1], types="scs", extra=[], convs=[1, 0, 2]))
        for conv in (1, 2, 3):
            out.append(Dummy(kind=kind, ls=[2, 1], Ms=[1, 2], types="sc", extra=[], conv=conv))
            out.append(Dummy(kind=kind, ls=[1, 3] if tier == "thorough" else [1, 2], Ms=[2, 1], types="cs", extra=[2], conv=conv))
    # two_asymm
    for t1, t2 in itertools.product(["c", "s"], ["cc", "cs", "sc", "ss"]):
        out.append(Dummy(kind="two_asymm", ls=[2], Ms=[2], types=t1, ls2=[1, 2], Ms2=[2, 1], types2=t2, extra=[2]))
        out.append(Dummy(kind="two_asymm", ls=[2], Ms=[2], types=t1, ls2=[1, 2], Ms2=[2, 1], types2=t2, extra=[], via="mix"))
    out.append(Dummy(kind="two_asymm", ls=[1, 2], Ms=[1, 1], types="cs", ls2=[2, 0], Ms2=[1, 2], types2="sc", extra=[], nt=3))
    out.append(Dummy(kind="two_asymm", ls=[1, 2], Ms=[1, 1], types="sc", ls2=[2], Ms2=[2], types2="c", extra=[2], conv=2))
    # four_symm
    four = [([0, 1], [2, 1]), ([1, 1], [1, 2])]
    if tier == "thorough":
        four += [([2, 0], [1, 2]), ([1, 2], [1, 1])]
    for ls, Ms in four:
        for types in itertools.product("cs", repeat=2):
            out.append(Dummy(kind="four_symm", ls=ls, Ms=Ms, types="".join(types)))
    out.append(Dummy(kind="four_symm", ls=[0, 1, 0], Ms=[1, 1, 2], types="csc"))
    out.append(Dummy(kind="four_symm", ls=[0, 1], Ms=[2, 1], types="cs", nt=2))
    out.append(Dummy(kind="four_symm", ls=[1, 0], Ms=[1, 1], types="sc", conv=1))
    out.append(Dummy(kind="four_symm", ls=[1, 1], Ms=[1, 1], types="ss", convs=[0, 9]))
    out.append(Dummy(kind="four_symm", ls=[1], Ms=[2], types="s", via="mix"))
    if tier == "thorough":
        out.append(Dummy(kind="four_symm", ls=[0, 1, 2], Ms=[1, 1, 1], types="csc"))
        out.append(Dummy(kind="four_symm", ls=[2, 1], Ms=[1, 1], types="sc", conv=2))
        out.append(Dummy(kind="four_symm", ls=[1, 0, 1], Ms=[1, 2, 1], types="scs", nt=3))
    # (b) public dispatch on real kernels
    for mod in ("overlap", "kinetic", "moment", "momentum", "angmom", "point_charge", "nuclear", "eval", "eval_deriv",
                "eval_deriv_direct"):
        out.append(PublicDispatch(module=mod, ls=[2, 1], types="sc", Ks=[1, 1], Ms=[1, 1]))
        out.append(PublicDispatch(module=mod, ls=[1, 2], types="cs", Ks=[1, 1], Ms=[1, 1], nt=2))
        if tier == "thorough":
            out.append(PublicDispatch(module=mod, ls=[2, 2], types="ss", Ks=[1, 1], Ms=[2, 1]))
            out.append(PublicDispatch(module=mod, ls=[1, 2, 0], types="csc", Ks=[1, 1, 2], Ms=[1, 1, 1], nt=3))
    for mod in ("eri", "eri_phys"):
        out.append(PublicDispatch(module=mod, ls=[1, 0], types="sc", Ks=[1, 1], Ms=[1, 1]))
        out.append(PublicDispatch(module=mod, ls=[0, 1], types="cs", Ks=[1, 1], Ms=[1, 1], nt=2))
        if tier == "thorough":
            out.append(PublicDispatch(module=mod, ls=[2, 0], types="sc", Ks=[1, 1], Ms=[1, 1]))
    return out


def main(tier="quick", seed=0, only=None):
    cs = cm.parse_only(cases(tier), only)
    bounds = {
        "dummy_blocks": "one- and two-index (symmetric) classes: every cartesian/spherical assignment of 1-3 shells (4 in thorough), "
                        "l <= 2 (3 thorough), M <= 3, with and without trailing axes, via the dedicated and the mix entry points; "
                        "asymmetric class: all 8 type assignments of 1 x 2 shells; four-index class: all assignments of 2 shells, "
                        "one 3-shell case; rectangular symbolic T; three permuted / signed component conventions",
        "public": "every public two-index module, ERI in both notations, evaluate_basis / evaluate_deriv_basis (both back-ends) on "
                  "a mixed 2-shell basis with l <= 2 (ERI l <= 1; l <= 2 thorough), with and without rectangular T",
        "outside": "more than 4 shells; l > 3 in the assembly; conventions other than the three enumerated ones",
    }
    assumptions = ["real-number semantics", "block symbols are symmetric under the index symmetries the symmetric base classes document",
                   "transformation matrices compared with an independent solid-harmonic construction (refs/harmonics.py)"]
    return run_property("C09", cs, tier, seed, ENCODED, bounds, assumptions, title="Assembly / transformation logic.")
