"""run CrossHair (symbolic execution of plain Python with z3) on a PEP-316 harness module and turn its report
into obligations: 'Confirmed over all paths' = discharged; a counterexample is replayed concretely in a fresh
process before it is reported; everything else is inconclusive."""
import json
import os
import re
import subprocess
import sys
import time

from sx import harness

VERIF = harness.VERIF


def _functions(path):
    import ast

    tree = ast.parse(open(path).read())
    out = []
    for node in tree.body:
        if isinstance(node, ast.FunctionDef):
            doc = ast.get_docstring(node) or ""
            if "post:" in doc:
                out.append((node.name, node.lineno + 1, doc))
    return out


def replay_call(module, call):
    code = (
        "import sys, json\n"
        f"import {module} as m\n"
        "try:\n"
        f"    r = eval({call!r}, vars(m))\n"
        "    print('CHREPLAY ' + json.dumps({'returned': bool(r), 'repr': repr(r)[:200]}))\n"
        "except BaseException as e:\n"
        "    print('CHREPLAY ' + json.dumps({'raised': type(e).__name__, 'msg': str(e)[:200]}))\n"
    )
    p = subprocess.run([harness.PY, "-W", "ignore", "-c", code], cwd=VERIF, capture_output=True, text=True, timeout=300,
                       env=harness._env())
    for line in p.stdout.splitlines():
        if line.startswith("CHREPLAY "):
            return json.loads(line[9:])
    return {"error": (p.stderr or p.stdout)[-300:]}


def write_pycall_replay(prop, module, call):
    import hashlib

    d = os.path.join(VERIF, "replays", prop)
    os.makedirs(d, exist_ok=True)
    payload = {"kind": "pycall", "property": prop, "module": module, "call": call}
    h = hashlib.sha1(json.dumps(payload, sort_keys=True).encode()).hexdigest()[:12]
    path = os.path.join(d, h + ".json")
    json.dump(payload, open(path, "w"), indent=1)
    return path


def run(prop, module, tier, per_condition_timeout=None, only=None):
    t0 = time.time()
    path = os.path.join(VERIF, *module.split(".")) + ".py"
    fns = _functions(path)
    if only:
        fns = [f for f in fns if only in f[0]]
    tmo = per_condition_timeout or (60 if tier == "quick" else 240)
    procs = []
    for name, line, doc in fns:
        cmd = [harness.PY, "-W", "ignore", "-m", "crosshair", "check", "--report_all", "--per_condition_timeout", str(tmo),
               "--per_path_timeout", str(max(5, tmo // 3)), f"{path}:{line}"]
        procs.append((name, subprocess.Popen(cmd, cwd=VERIF, stdout=subprocess.PIPE, stderr=subprocess.STDOUT, text=True,
                                             env=harness._env())))
    extra = dict(obligations=0, discharged=0, violations=[], known=[], inconclusive=[], harness_errors=[], samples=[],
                 evaluations=0, distinct_nontrivial=0, coverage={})
    rows = []
    for name, pr in procs:
        try:
            outp, _ = pr.communicate(timeout=tmo * 6 + 120)
        except subprocess.TimeoutExpired:
            pr.kill()
            outp = "TIMEOUT"
        extra["obligations"] += 1
        extra["evaluations"] += 1
        verdict = "inconclusive"
        detail = outp.strip().splitlines()[-1] if outp.strip() else ""
        m_err = re.search(r"error: (.*) when calling (.*)$", outp, re.M)
        if "Confirmed over all paths" in outp:
            verdict = "confirmed"
            extra["discharged"] += 1
            extra["distinct_nontrivial"] += 1
        elif m_err:
            what, call = m_err.group(1), m_err.group(2).strip()
            call = re.sub(r"\s*\(which returns.*$", "", call)
            rep = replay_call(module, call)
            bad = rep.get("returned") is False or "raised" in rep
            if bad:
                verdict = "violation"
                rpath = write_pycall_replay(prop, module, call)
                rec = {"key": f"{name}:{call}", "case": module, "detail": f"{what}; replay: {rep}", "replay": rpath}
                kf = harness.match_known(prop, module, rec["key"])
                if kf:
                    rec["known"] = kf["id"]
                    extra["known"].append(rec)
                    extra["distinct_nontrivial"] += 1
                else:
                    extra["violations"].append(rec)
            else:
                extra["inconclusive"].append({"key": name, "case": module, "why": f"CrossHair counterexample {call} did not reproduce: {rep}"})
        else:
            why = "Not confirmed" if "Not confirmed" in outp else ("Unable to meet precondition" if "Unable to meet" in outp else detail[-200:])
            extra["inconclusive"].append({"key": name, "case": module, "why": f"CrossHair: {why}"})
        rows.append({"function": name, "verdict": verdict, "detail": detail[-200:]})
    # twins: drop their own "violations" (they are wrong on purpose) and downgrade the property whose twin survived
    byname = {r["function"]: r for r in rows}
    keep_v, keep_k = [], []
    for rec in extra["violations"]:
        fn = rec["key"].split(":")[0]
        if not fn.endswith("_twin"):
            keep_v.append(rec)
    extra["violations"] = keep_v
    for name in list(byname):
        if name.endswith("_twin"):
            extra["obligations"] -= 1
            if byname[name]["verdict"] == "confirmed":
                extra["discharged"] -= 1
            base = name[: -len("_twin")]
            refuted = byname[name]["verdict"] == "violation"
            byname[name]["twin_refuted"] = refuted
            if not refuted and base in byname and byname[base]["verdict"] == "confirmed":
                extra["discharged"] -= 1
                byname[base]["verdict"] = "confirmed-but-twin-survived"
                extra["inconclusive"].append({"key": base, "case": module, "why": "CrossHair confirmed the property but did not refute its wrong twin"})
    extra["inconclusive"] = [i for i in extra["inconclusive"] if not str(i.get("key", "")).endswith("_twin")]
    extra["samples"] = [{"crosshair_function": r["function"], "verdict": r["verdict"]} for r in rows[:4]]
    extra["coverage"] = {"crosshair": {"module": module, "per_condition_timeout_s": tmo, "functions": rows,
                                       "wall_s": round(time.time() - t0, 1)}}
    return extra
