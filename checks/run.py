"""entry point:  python -m checks.run C01 --tier quick"""
import argparse
import importlib
import os
import sys
import warnings

warnings.filterwarnings("ignore")
HERE = os.path.dirname(os.path.dirname(os.path.abspath(__file__)))
REPO = os.environ.get("GBASIS_REPO", "/repo")
for p in (REPO, HERE):
    if p not in sys.path:
        sys.path.insert(0, p)
os.environ["PYTHONPATH"] = HERE + os.pathsep + REPO + os.pathsep + os.environ.get("PYTHONPATH", "")
os.environ.setdefault("PYTHONWARNINGS", "ignore")


def main():
    ap = argparse.ArgumentParser()
    ap.add_argument("prop")
    ap.add_argument("--tier", default=os.environ.get("VERIF_TIER", "quick"))
    ap.add_argument("--seed", type=int, default=int(os.environ.get("VERIF_SEED", "0")))
    ap.add_argument("--only", default=None, help="substring filter on case ids (debugging)")
    a = ap.parse_args()
    sys.setrecursionlimit(20000)
    mod = importlib.import_module("checks." + a.prop.lower())
    rc = mod.main(tier=a.tier, seed=a.seed, only=a.only)
    sys.exit(rc)


if __name__ == "__main__":
    main()
