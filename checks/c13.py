"""C13 - contractions behave as the linear combinations they denote (code vs code, public functions)"""
import itertools

import numpy as np

from sx.harness import Case, run_property, shell_spec, make_shell
from . import common as cm
from .c09 import _public_call, NIDX
from .c11 import _block

ENCODED = [
    "gbasis.contractions:GeneralizedContractionShell.assign_norm_cont",
    "gbasis.contractions:GeneralizedContractionShell.norm_prim_cart",
    "gbasis.integrals._moment_int:_cleanup_intermediate_integrals",
    "gbasis.integrals._one_elec_int:_compute_one_elec_integrals",
    "gbasis.integrals._two_elec_int:_compute_two_elec_integrals",
    "gbasis.evals._deriv:_eval_deriv_contractions",
    "gbasis.base_one:BaseOneIndex.construct_array_cartesian",
    "gbasis.base_two_symm:BaseTwoIndexSymmetric.construct_array_cartesian",
    "gbasis.base_four_symm:BaseFourIndexSymmetric.construct_array_cartesian",
]


def _common_inputs(mk):
    return dict(C=[mk.var("C" + x) for x in "xyz"], P=[mk.var("P" + x) for x in "xyz"], q=[mk.var("q0"), mk.var("q1")], T=None)


class Law(Case):
    """module(variant basis) == module(original basis)  for the contraction laws:
    gen: generalized shell (K, M) vs M segmented shells sharing the primitives
    perm: primitives listed in another order
    split: one primitive split into two with the coefficient shared (c = u + v)
    scale: one column multiplied by lambda > 0 (renormalised -> unchanged) or lambda < 0 (that function's sign flips)"""

    prop = "C13"
    canary_scale = "Ae0"
    rtol = 1e-7
    query_timeout = 120000

    def inputs(self, mk):
        p = self.params
        K, M = p["K"], p["M"]
        sh = shell_spec(mk, "A", p["l"], K, M)
        partner = shell_spec(mk, "B", p.get("lp", 1), 1, 1)
        I = dict(sh=sh, partner=partner, **_common_inputs(mk))
        if p["law"] == "split":
            I["u"] = mk.var("u", "!=0")
        if p["law"] == "scale":
            I["lam"] = mk.var("lam", ">0")
        return I

    def _types(self, n):
        t = self.params.get("types", "cc")
        return t[0] * (n - 1) + t[1]

    def _variant(self, I, mk):
        p = self.params
        sh = I["sh"]
        law = p["law"]
        if law == "gen":
            segs = []
            for m in range(p["M"]):
                segs.append(dict(l=sh["l"], A=sh["A"], exps=sh["exps"], coeffs=[[row[m]] for row in sh["coeffs"]], tag=f"A{m}"))
            return segs
        if law == "perm":
            perm = p["perm"]
            return [dict(l=sh["l"], A=sh["A"], exps=[sh["exps"][i] for i in perm], coeffs=[sh["coeffs"][i] for i in perm], tag="A")]
        if law == "split":
            # primitive 0 -> two primitives with coefficients (c0 - u) and u in every column ... shared: c0 = (c0 - u) + u
            u = I["u"]
            e = [sh["exps"][0]] + list(sh["exps"])
            c = [[u * (j + 1) for j in range(p["M"])]] + [[sh["coeffs"][0][j] - u * (j + 1) for j in range(p["M"])]] + [list(r) for r in sh["coeffs"][1:]]
            return [dict(l=sh["l"], A=sh["A"], exps=e, coeffs=c, tag="A")]
        if law == "scale":
            lam = I["lam"] * p["sign"]
            c = [[(v * lam if j == p["col"] else v) for j, v in enumerate(row)] for row in sh["coeffs"]]
            return [dict(l=sh["l"], A=sh["A"], exps=sh["exps"], coeffs=c, tag="A")]
        raise KeyError(law)

    def code(self, I, mk):
        specs = self._variant(I, mk) + [I["partner"]]
        basis = cm.basis_from(mk, specs, self._types(len(specs)))
        return {"A": _public_call(self.params["module"], basis, I, mk)}

    def ref(self, I, ops, mk):
        p = self.params
        specs = [I["sh"], I["partner"]]
        types = self._types(2)
        A = np.asarray(_public_call(p["module"], cm.basis_from(mk, specs, types), I, mk)).view(np.ndarray)
        if p["law"] == "scale" and p["sign"] < 0:
            n = cm.nfun(p["l"], types[0])
            idx = list(range(p["col"] * n, (p["col"] + 1) * n))
            A = A.copy()
            for ax in range(NIDX[p["module"]]):
                sl = [slice(None)] * A.ndim
                sl[ax] = idx
                A[tuple(sl)] = A[tuple(sl)] * (-1)
        return {"A": A}


class Linear(Case):
    """un-normalised shell blocks are linear in the coefficient matrix: block(c + c') == block(c) + block(c')"""

    prop = "C13"
    canary_scale = "Ae0"
    rtol = 1e-7

    def inputs(self, mk):
        p = self.params
        sa = shell_spec(mk, "A", p["la"], p["K"], p["M"], coeff_dom=None)
        sb = shell_spec(mk, "B", p["lb"], 1, 1)
        c2 = [[mk.var(f"Ad{k}_{m}") for m in range(p["M"])] for k in range(p["K"])]
        return dict(sa=sa, sb=sb, c2=c2, C=[mk.var("C" + x) for x in "xyz"], q=[mk.var("q0")], P=[mk.var("P" + x) for x in "xyz"])

    def _blk(self, I, mk, coeffs, swap):
        sa = dict(I["sa"], coeffs=coeffs)
        a = make_shell(mk, sa, normalise=False)
        b = make_shell(mk, I["sb"], normalise=False)
        mod = self.params["module"]
        if mod == "eval":
            from gbasis.evals.eval_deriv import EvalDeriv
            return EvalDeriv.construct_array_contraction(a, mk.array([I["P"]]), np.array([1, 0, 2]))
        if mod == "eri":
            from gbasis.integrals.electron_repulsion import ElectronRepulsionIntegral
            order = [b, a, b, b] if swap else [a, b, b, a]
            return ElectronRepulsionIntegral.construct_array_contraction(*order)
        return _block(mod, b, a, I, mk) if swap else _block(mod, a, b, I, mk)

    def code(self, I, mk):
        c = [[x + y for x, y in zip(r1, r2)] for r1, r2 in zip(I["sa"]["coeffs"], I["c2"])]
        swap = self.params.get("swap", False)
        if self.params["module"] == "eri" and not swap:
            return {"B": None} if False else {"B": self._bilinear_code(I, mk)}
        return {"B": self._blk(I, mk, c, swap)}

    def _bilinear_code(self, I, mk):
        # shell a appears twice ([a, b, b, a]): the block is quadratic; polarisation identity
        # B(c + c') - B(c) - B(c') must be symmetric bilinear: compare B(c+c') + B(c-c') == 2 B(c) + 2 B(c')
        c_plus = [[x + y for x, y in zip(r1, r2)] for r1, r2 in zip(I["sa"]["coeffs"], I["c2"])]
        c_minus = [[x - y for x, y in zip(r1, r2)] for r1, r2 in zip(I["sa"]["coeffs"], I["c2"])]
        return np.asarray(self._blk(I, mk, c_plus, False)).view(np.ndarray) + np.asarray(self._blk(I, mk, c_minus, False)).view(np.ndarray)

    def ref(self, I, ops, mk):
        swap = self.params.get("swap", False)
        b1 = np.asarray(self._blk(I, mk, I["sa"]["coeffs"], swap)).view(np.ndarray)
        b2 = np.asarray(self._blk(I, mk, I["c2"], swap)).view(np.ndarray)
        if self.params["module"] == "eri" and not swap:
            return {"B": 2 * b1 + 2 * b2}
        return {"B": b1 + b2}


def cases(tier, seed=0):
    out = []
    mods = ["overlap", "kinetic", "moment", "momentum", "angmom", "point_charge", "nuclear", "eval", "eval_deriv"]
    qmods = mods if tier == "thorough" else ["overlap", "kinetic", "point_charge", "momentum", "eval_deriv"]
    lset = (0, 1, 2) if tier == "thorough" else (1,)
    for mod in mods:
        for l in ((0, 1, 2) if tier == "thorough" else ((1, 2) if mod in ("overlap", "eval") else (1,))):
            out.append(Law(law="gen", module=mod, l=l, K=2, M=2))
    for mod in qmods:
        for l in lset:
            out.append(Law(law="perm", module=mod, l=l, K=2, M=2, perm=[1, 0]))
            out.append(Law(law="split", module=mod, l=l, K=2, M=2))
    for perm in itertools.permutations(range(3)):
        if list(perm) != [0, 1, 2]:
            out.append(Law(law="perm", module="overlap", l=1, K=3, M=1, perm=list(perm)))
            if tier == "thorough":
                out.append(Law(law="perm", module="eval", l=2, K=3, M=2, perm=list(perm)))
    # scaling (needs the norm_cont root relation): K = 2
    for mod in (["overlap", "eval"] if tier == "quick" else ["overlap", "kinetic", "eval", "point_charge", "momentum"]):
        for sign in (1, -1):
            out.append(Law(law="scale", module=mod, l=1 if mod != "eval" else 0, K=2, M=2, col=1, sign=sign))
    out.append(Law(law="scale", module="overlap", l=0, K=1, M=2, col=0, sign=-1))
    if tier == "thorough":
        out.append(Law(law="scale", module="overlap", l=2, K=2, M=2, col=0, sign=-1, types="sc"))
        out.append(Law(law="gen", module="overlap", l=2, K=2, M=3, types="sc"))
        out.append(Law(law="gen", module="kinetic", l=2, K=3, M=2, types="cs", lp=2))
    # ERI (l <= 1)
    out.append(Law(law="gen", module="eri", l=0, K=2, M=2, lp=0))
    out.append(Law(law="perm", module="eri", l=0, K=2, M=1, perm=[1, 0], lp=0))
    if tier == "thorough":
        out.append(Law(law="gen", module="eri", l=1, K=2, M=2, lp=0))
        out.append(Law(law="split", module="eri", l=1, K=1, M=1, lp=0))
        out.append(Law(law="scale", module="eri", l=0, K=2, M=2, col=1, sign=-1, lp=0))
    # linearity of un-normalised blocks
    for mod in ("overlap", "kinetic", "moment", "momentum", "angmom", "point_charge", "eval"):
        out.append(Linear(module=mod, la=1, lb=1, K=2, M=2))
        if mod != "eval":
            out.append(Linear(module=mod, la=2, lb=1, K=2, M=1, swap=True))
    out.append(Linear(module="eri", la=1, lb=0, K=2, M=1, swap=True))
    out.append(Linear(module="eri", la=0, lb=0, K=2, M=1))
    return out


def main(tier="quick", seed=0, only=None):
    cs = cm.parse_only(cases(tier, seed), only)
    bounds = {
        "shells": "shell under test l <= 2 (ERI l <= 1) with K <= 3 primitives and M <= 3 columns, next to one partner shell; "
                  "all permutations of 3 primitives; split of one primitive with a symbolic share; symbolic scale factor lambda > 0 and "
                  "-lambda < 0 (all magnitudes at once); quick covers 5 modules per law, thorough every module",
        "outside": "K = 4, M = 4; floating-point effects of scale factors over 12 orders of magnitude (the solver's statement is for all real lambda)",
    }
    assumptions = ["real-number semantics", "exponents > 0, coefficients != 0, contraction normalisable (self-overlap != 0)"]
    return run_property("C13", cs, tier, seed, ENCODED, bounds, assumptions, title="Contraction laws.")
