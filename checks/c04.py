"""C04 - electron-repulsion integrals exact in both conventions"""
import itertools
from fractions import Fraction

import numpy as np

from refs import gauss as G
from sx.harness import Case, run_property, shell_spec, make_shell
from . import common as cm

ENCODED = [
    "gbasis.integrals._two_elec_int:_compute_two_elec_integrals_angmom_zero",
    "gbasis.integrals._two_elec_int:_compute_two_elec_integrals",
    "gbasis.integrals.point_charge:PointChargeIntegral.boys_func",
    "gbasis.integrals.electron_repulsion:ElectronRepulsionIntegral.construct_array_contraction",
    "gbasis.integrals.electron_repulsion:electron_repulsion_integral",
    "gbasis.base_four_symm:BaseFourIndexSymmetric.construct_array_cartesian",
    "gbasis.base_four_symm:BaseFourIndexSymmetric.construct_array_mix",
]


class Block(Case):
    """ElectronRepulsionIntegral.construct_array_contraction(a,b,c,d) == McMurchie-Davidson (ab|cd), every element"""

    prop = "C04"
    canary_scale = "Ae0"
    rtol = 1e-6
    query_timeout = 120000

    @property
    def concrete(self):
        c = self.params.get("exps")
        if not c:
            return None
        return {f"{t}e{k}": v for t, vs in zip("ABCD", c) for k, v in enumerate(vs)}

    def inputs(self, mk):
        p = self.params
        geo = p.get("geom", "general")
        specs = []
        for i, t in enumerate("ABCD"):
            coord = None
            if geo == "coincident" and i > 0:
                coord = specs[0]["A"]
            elif geo == "pairs" and i in (1, 3):
                coord = specs[i - 1]["A"]
            specs.append(shell_spec(mk, t, p["ls"][i], p["Ks"][i], p["Ms"][i], coord=coord))
        return dict(specs=specs)

    def code(self, I, mk):
        from gbasis.integrals.electron_repulsion import ElectronRepulsionIntegral

        sh = [make_shell(mk, s, normalise=False) for s in I["specs"]]
        return {"G": ElectronRepulsionIntegral.construct_array_contraction(*sh)}

    def ref(self, I, ops, mk):
        s = I["specs"]
        return {"G": G.contracted4(ops, s, G.eri_prim(ops, s[0]["A"], s[1]["A"], s[2]["A"], s[3]["A"]))}


class Conventions(Case):
    """electron_repulsion_integral: physicist == chemist with the two middle axes exchanged (code vs code),
    and the chemist array == normalised reference on a small basis"""

    prop = "C04"
    canary_scale = "Ae0"
    rtol = 1e-6
    query_timeout = 120000

    def inputs(self, mk):
        p = self.params
        return dict(specs=cm.specs_from(mk, p))

    def code(self, I, mk):
        from gbasis.integrals.electron_repulsion import electron_repulsion_integral

        basis = cm.basis_from(mk, I["specs"], self.params["types"])
        return {"phys": electron_repulsion_integral(basis, notation="physicist")}

    def ref(self, I, ops, mk):
        from gbasis.integrals.electron_repulsion import electron_repulsion_integral

        basis = cm.basis_from(mk, I["specs"], self.params["types"])
        chem = electron_repulsion_integral(basis, notation="chemist")
        return {"phys": np.transpose(np.asarray(chem).view(np.ndarray), (0, 2, 1, 3))}


class PublicS(Case):
    """chemist-notation array over an all-s basis == normalised McMurchie-Davidson reference"""

    prop = "C04"
    canary_scale = "Ae0"
    rtol = 1e-6
    query_timeout = 120000

    @property
    def concrete(self):
        c = self.params.get("exps")
        if not c:
            return None
        return {f"{t}e{k}": v for t, vs in zip("ABCD", c) for k, v in enumerate(vs)}

    def inputs(self, mk):
        p = self.params
        return dict(specs=cm.specs_from(mk, p))

    def code(self, I, mk):
        from gbasis.integrals.electron_repulsion import electron_repulsion_integral

        basis = cm.basis_from(mk, I["specs"], "c" * len(I["specs"]))
        return {"chem": electron_repulsion_integral(basis, notation="chemist")}

    def ref(self, I, ops, mk):
        specs = I["specs"]
        n = len(specs)
        # functions: shell, segment, component (cartesian only here)
        fun = []
        for si, s in enumerate(specs):
            blk = G.contracted(ops, s, s, G.overlap_prim(ops, s["A"], s["A"]))
            for m in range(len(s["coeffs"][0])):
                for c in range(len(G.comps(s["l"]))):
                    fun.append((si, m, c, 1 / ops.sqrt(blk[m][c][m][c])))
        N = len(fun)
        out = np.empty((N, N, N, N), dtype=object)
        cache = {}
        for q in itertools.product(range(n), repeat=4):
            sh = [specs[i] for i in q]
            cache[q] = G.contracted4(ops, sh, G.eri_prim(ops, *[s["A"] for s in sh]))
        for i, j, k, l in itertools.product(range(N), repeat=4):
            fi, fj, fk, fl = fun[i], fun[j], fun[k], fun[l]
            v = cache[(fi[0], fj[0], fk[0], fl[0])][(fi[1], fi[2], fj[1], fj[2], fk[1], fk[2], fl[1], fl[2])]
            out[i, j, k, l] = v * fi[3] * fj[3] * fk[3] * fl[3]
        return {"chem": out}


def _exps(ls, seed, Ks):
    E = [Fraction(3, 2), Fraction(7, 10), Fraction(3, 10), Fraction(5, 1), Fraction(11, 4), Fraction(2, 5), Fraction(13, 10), Fraction(9, 4)]
    if 3 in ls:
        E = [Fraction(3, 2), Fraction(7, 10), Fraction(1, 5), Fraction(5, 1), Fraction(11, 4), Fraction(2, 5)]
    out = []
    j = seed
    for K in Ks:
        row = []
        for _ in range(K):
            row.append(str(E[j % len(E)]))
            j += 3
        out.append(row)
    return out


def cases(tier, seed=0):
    out = []
    ones = [1, 1, 1, 1]
    # Level A (all exponents symbolic): every quartet class with l <= 1
    for ls in itertools.product(range(2), repeat=4):
        if tier == "quick" and sum(ls) > 2:
            continue
        out.append(Block(ls=list(ls), Ks=ones, Ms=ones))
    if tier == "quick":
        # Level B for the remaining l <= 1 classes and a few d classes
        for ls in itertools.product(range(2), repeat=4):
            if sum(ls) > 2:
                out.append(Block(ls=list(ls), Ks=ones, Ms=ones, exps=_exps(ls, sum(ls) + seed, ones)))
        for ls in [(2, 0, 0, 0), (0, 2, 0, 0), (0, 0, 2, 0), (0, 0, 0, 2), (2, 1, 0, 0), (1, 0, 2, 0), (0, 1, 1, 2)]:
            out.append(Block(ls=list(ls), Ks=ones, Ms=ones, exps=_exps(ls, 1 + seed, ones)))
        out.append(Block(ls=[1, 0, 0, 0], Ks=[2, 1, 1, 1], Ms=[1, 1, 2, 1]))
        out.append(Block(ls=[0, 0, 1, 0], Ks=[1, 2, 1, 1], Ms=[1, 1, 1, 2], exps=_exps((0, 0, 1, 0), 2, [1, 2, 1, 1])))
        # generalized shells on both members of a pair, in increasing and decreasing angular momentum
        out.append(Block(ls=[0, 1, 0, 0], Ks=[1, 1, 1, 1], Ms=[2, 2, 1, 1], exps=_exps((0, 1, 0, 0), 4 + seed, ones)))
        out.append(Block(ls=[1, 0, 0, 1], Ks=[1, 1, 1, 1], Ms=[2, 1, 2, 2], exps=_exps((1, 0, 0, 1), 5 + seed, ones)))
        out.append(Block(ls=[1, 1, 0, 0], Ks=ones, Ms=ones, geom="coincident"))
        out.append(Block(ls=[1, 0, 1, 0], Ks=ones, Ms=ones, geom="pairs"))
        out.append(Conventions(ls=[0, 1], types="cc", Ks=[1, 1], Ms=[1, 1]))
        out.append(PublicS(ls=[0, 0], Ks=[2, 1], Ms=[1, 2]))
        out.append(PublicS(ls=[0, 0, 0], Ks=[2, 2, 1], Ms=[1, 1, 1], twin={"1": 0}, share={"2": 0}))
    else:
        for ls in itertools.product(range(3), repeat=4):
            if max(ls) < 2:
                continue
            out.append(Block(ls=list(ls), Ks=ones, Ms=ones, exps=_exps(ls, sum(ls) + seed, ones)))
        # f shells: every class with one f and total L <= 5, plus three (3,3)-type classes
        for pos in range(4):
            for rest in itertools.product(range(3), repeat=3):
                if sum(rest) <= 2:
                    ls = list(rest[:pos]) + [3] + list(rest[pos:])
                    out.append(Block(ls=ls, Ks=ones, Ms=ones, exps=_exps(ls, sum(ls) + seed, ones)))
        for ls in [(3, 3, 0, 0), (3, 0, 3, 0), (0, 3, 0, 3)]:
            out.append(Block(ls=list(ls), Ks=ones, Ms=ones, exps=_exps(ls, seed, ones)))
        for ls in itertools.product(range(2), repeat=4):
            if sum(ls) <= 1:
                out.append(Block(ls=list(ls), Ks=[2, 1, 1, 2], Ms=[1, 2, 1, 1]))
            else:
                out.append(Block(ls=list(ls), Ks=[2, 1, 1, 2], Ms=[1, 2, 1, 1], exps=_exps(ls, 3 + seed, [2, 1, 1, 2])))
        out.append(Block(ls=[0, 1, 0, 0], Ks=[1, 1, 1, 1], Ms=[2, 2, 1, 1], exps=_exps((0, 1, 0, 0), 4 + seed, ones)))
        out.append(Block(ls=[1, 0, 0, 1], Ks=[1, 1, 1, 1], Ms=[2, 1, 2, 2], exps=_exps((1, 0, 0, 1), 5 + seed, ones)))
        out.append(Block(ls=[0, 2, 1, 2], Ks=[1, 1, 1, 1], Ms=[2, 2, 2, 2], exps=_exps((0, 2, 1, 2), 6 + seed, ones)))
        for geom in ("coincident", "pairs"):
            out.append(Block(ls=[1, 1, 1, 1], Ks=ones, Ms=ones, geom=geom))
            out.append(Block(ls=[2, 1, 1, 0], Ks=ones, Ms=ones, geom=geom, exps=_exps((2, 1, 1, 0), 5, ones)))
        out.append(Conventions(ls=[0, 1], types="cc", Ks=[1, 1], Ms=[1, 1]))
        out.append(Conventions(ls=[1, 1], types="cs", Ks=[1, 1], Ms=[1, 1]))
        out.append(Conventions(ls=[2, 0], types="sc", Ks=[1, 1], Ms=[1, 1]))
        out.append(PublicS(ls=[0, 0], Ks=[2, 1], Ms=[1, 2]))
        out.append(PublicS(ls=[0, 1], Ks=[1, 1], Ms=[1, 1]))
    return out


def main(tier="quick", seed=0, only=None):
    cs = cm.parse_only(cases(tier, seed), only)
    bounds = {
        "level_A": "every quartet class with all l <= 1 and total L <= 2 (quick) / all 16 classes (thorough): exponents, centres, coefficients symbolic",
        "level_B": "quick: remaining l <= 1 classes and 7 classes with one d shell; thorough: all 65 classes with a d shell (l <= 2), "
                   "every class with one f shell and total L <= 5, (3,3,0,0), (3,0,3,0), (0,3,0,3): concrete rational exponents "
                   "(from a fixed pool, offset by VERIF_SEED), centres and coefficients symbolic",
        "geometry": "general symbolic centres; plus all-coincident and pairwise-coincident centres",
        "primitives": "K <= 2", "segments": "M <= 2",
        "outside": "f quartets with total L > 5 (object-array tables too large); floating-point conditioning of the "
                   "electron-transfer recursion for tight-s / diffuse-f quartets (rounding is not modelled); accuracy of hyp1f1",
    }
    assumptions = ["real-number semantics", "Boys function as uninterpreted atom with its contract", "exponents > 0, coefficients != 0"]
    return run_property("C04", cs, tier, seed, ENCODED, bounds, assumptions, title="ERI exactness, both conventions.")
