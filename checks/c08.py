"""C08 - momentum and angular-momentum integrals exact and Hermitian"""
import numpy as np

from refs import gauss as G
from sx.harness import Case, run_property, shell_spec, make_shell
from . import common as cm

ENCODED = [
    "gbasis.integrals._diff_operator_int:_compute_differential_operator_integrals_intermediate",
    "gbasis.integrals._diff_operator_int:_compute_differential_operator_integrals",
    "gbasis.integrals._moment_int:_compute_multipole_moment_integrals_intermediate",
    "gbasis.integrals._moment_int:_cleanup_intermediate_integrals",
    "gbasis.integrals.momentum:MomentumIntegral.construct_array_contraction",
    "gbasis.integrals.momentum:momentum_integral",
    "gbasis.integrals.angular_momentum:AngularMomentumIntegral.construct_array_contraction",
    "gbasis.integrals.angular_momentum:angular_momentum_integral",
    "gbasis.base_two_symm:BaseTwoIndexSymmetric.construct_array_cartesian",
    "gbasis.base_two_symm:BaseTwoIndexSymmetric.construct_array_spherical",
    "gbasis.base_two_symm:BaseTwoIndexSymmetric.construct_array_mix",
]


def _cls(op):
    if op == "p":
        from gbasis.integrals.momentum import MomentumIntegral as K, momentum_integral as f
    else:
        from gbasis.integrals.angular_momentum import AngularMomentumIntegral as K, angular_momentum_integral as f
    return K, f


def _prim(ops, op, A, B, axis):
    return G.grad_prim(ops, A, B, axis) if op == "p" else G.angmom_prim(ops, A, B, axis)


def _minus_i(x):
    # -i * x for a real x of either number type
    return x * (-1j)


class Block(Case):
    """block(a, b)[..., axis] == -i <a| d/dx_axis |b>   resp.  -i <a| (r x grad)_axis |b>  (closed forms,
    derivative applied to the right function; origin = coordinate origin)"""

    prop = "C08"
    canary_scale = "Ae0"
    rtol = 1e-7

    def inputs(self, mk):
        p = self.params
        return dict(sa=shell_spec(mk, "A", p["la"], p["Ka"], p["Ma"]), sb=shell_spec(mk, "B", p["lb"], p["Kb"], p["Mb"]))

    def code(self, I, mk):
        K, _ = _cls(self.params["op"])
        a = make_shell(mk, I["sa"], normalise=False)
        b = make_shell(mk, I["sb"], normalise=False)
        return {"P": K.construct_array_contraction(a, b)}

    def ref(self, I, ops, mk):
        comps = []
        for axis in range(3):
            blk = np.array(G.contracted(ops, I["sa"], I["sb"], _prim(ops, self.params["op"], I["sa"]["A"], I["sb"]["A"], axis)), dtype=object)
            comps.append(blk * (-1j))
        return {"P": np.stack(comps, axis=-1)}


class Public(Case):
    """public matrix: every ordered pair (a, b) and component equals the normalised reference; and the
    matrix is Hermitian, M[b, a] == conj(M[a, b])"""

    prop = "C08"
    canary_scale = "Ae0"
    query_timeout = 120000
    rtol = 1e-7

    def inputs(self, mk):
        p = self.params
        return dict(specs=cm.specs_from(mk, p))

    def code(self, I, mk):
        _, f = _cls(self.params["op"])
        M = f(cm.basis_from(mk, I["specs"], self.params["types"]))
        return {"M": M, "H": M}

    def ref(self, I, ops, mk):
        _, f = _cls(self.params["op"])
        comps = []
        for axis in range(3):
            full = cm.ref_two_index(ops, I["specs"], self.params["types"], lambda A, B: _prim(ops, self.params["op"], A, B, axis))
            comps.append(np.array(full, dtype=object) * (-1j))
        R = np.stack(comps, axis=-1)
        # Hermiticity is asserted code-vs-code
        M = f(cm.basis_from(mk, I["specs"], self.params["types"]))
        H = np.conj(np.swapaxes(np.asarray(M), 0, 1)) if not mk.symbolic else _conjT(M)
        return {"M": R, "H": H}


def _conjT(M):
    M = np.asarray(M).view(np.ndarray)
    out = np.empty(M.shape, dtype=object)
    for idx in np.ndindex(*M.shape):
        v = M[(idx[1], idx[0]) + idx[2:]]
        out[idx] = v.conjugate() if hasattr(v, "conjugate") else v
    return out


def cases(tier):
    out = []
    lmax = 3 if tier == "quick" else 4
    for op in ("p", "L"):
        for la in range(lmax + 1):
            for lb in range(lmax + 1):
                out.append(Block(op=op, la=la, lb=lb, Ka=1, Kb=1, Ma=1, Mb=1))
        if tier == "quick":
            # the top of the property's range (g shells) also in the quick tier
            for la, lb in [(4, 0), (0, 4), (4, 1)]:
                out.append(Block(op=op, la=la, lb=lb, Ka=1, Kb=1, Ma=1, Mb=1))
        for la, lb in [(1, 0), (0, 1), (1, 1), (2, 1)]:
            out.append(Block(op=op, la=la, lb=lb, Ka=2, Kb=1, Ma=1, Mb=2))
        # equal l and >= 2 columns on both sides (two different generalized shells of one type)
        for l in (1, 2):
            out.append(Block(op=op, la=l, lb=l, Ka=1, Kb=2 if l < 2 else 1, Ma=2, Mb=2))
        out.append(Public(op=op, ls=[0, 1], types="cc", Ks=[2, 1], Ms=[1, 2]))
        out.append(Public(op=op, ls=[1, 0], types="cc", Ks=[1, 1], Ms=[1, 1]))
        out.append(Public(op=op, ls=[1], types="c", Ks=[2], Ms=[2]))
        out.append(Public(op=op, ls=[2, 1], types="sc", Ks=[1, 1], Ms=[1, 1]))
        # homonuclear: the same shell parameters on two centres, a second shell on the first centre
        out.append(Public(op=op, ls=[1, 1, 0], types="ccc", Ks=[1, 1, 1], Ms=[1, 1, 1], twin={"1": 0}, share={"2": 0}))
        if tier == "thorough":
            out.append(Public(op=op, ls=[1, 2], types="cs", Ks=[1, 2], Ms=[2, 1]))
            out.append(Public(op=op, ls=[2, 0, 1], types="scc", Ks=[1, 1, 1], Ms=[1, 1, 1]))
            out.append(Public(op=op, ls=[1, 0, 2], types="ccs", Ks=[1, 1, 1], Ms=[1, 1, 1]))
            out.append(Public(op=op, ls=[2], types="s", Ks=[2], Ms=[2]))
            out.append(Public(op=op, ls=[3, 1], types="cs", Ks=[1, 1], Ms=[1, 1]))
    return out


def main(tier="quick", seed=0, only=None):
    cs = cm.parse_only(cases(tier), only)
    bounds = {
        "angular_momenta": "block level: every ordered (la, lb) <= 3 plus (4,0), (0,4), (4,1) (quick) / <= 4 (thorough), both operators, Level A",
        "public": "1-3 shells in different orders, cartesian / spherical / mixed, l <= 2 (3 in one thorough case)",
        "primitives": "K <= 2", "segments": "M <= 2", "outside": "floating-point rounding; larger K / M / shell counts",
    }
    assumptions = ["real-number semantics", "exponents > 0, coefficients != 0", "factorial2 stub = exact contract"]
    return run_property("C08", cs, tier, seed, ENCODED, bounds, assumptions, title="Momentum / angular momentum exact and Hermitian.")
