"""C19 - calls are pure: arguments, shells and global numerical state are never changed.

One inductive step instead of call histories: from an arbitrary (symbolic) state of the argument arrays every
public function is executed once and the solver proves (i) every element of every argument array / shell
attribute is the same value afterwards, (ii) a second call on the same objects returns what a first call on
fresh copies returns, (iii) numpy's error state is what it was - on returning and on raising paths.
Preservation by every single call gives preservation by every sequence.  Plus: fault points between a
`seterr` and its restoration are enumerated (each intercepted numpy call is made to raise), and a shell is
unit-normalised again after its parameters are changed and `assign_norm_cont()` is called.
"""
import itertools

import numpy as np

from sx import core
from sx.harness import Case, run_property, shell_spec, make_shell
from . import common as cm
from .c06 import sym_matrix

ENCODED = [
    "gbasis.base_one:BaseOneIndex.construct_array_cartesian",
    "gbasis.base_two_symm:BaseTwoIndexSymmetric.construct_array_cartesian",
    "gbasis.base_two_symm:BaseTwoIndexSymmetric.construct_array_mix",
    "gbasis.base_two_asymm:BaseTwoIndexAsymmetric.construct_array_lincomb",
    "gbasis.base_four_symm:BaseFourIndexSymmetric.construct_array_cartesian",
    "gbasis.contractions:GeneralizedContractionShell.assign_norm_cont",
    "gbasis.parsers:make_contractions",
    "gbasis.evals.electrostatic_potential:electrostatic_potential",
    "gbasis.evals.density:evaluate_density",
    "gbasis.evals.density:evaluate_deriv_density",
    "gbasis.evals.density:evaluate_density_hessian",
    "gbasis.evals.density:evaluate_posdef_kinetic_energy_density",
    "gbasis.evals.stress_tensor:evaluate_stress_tensor",
    "gbasis.evals.stress_tensor:evaluate_ehrenfest_force",
    "gbasis.integrals.overlap:overlap_integral",
    "gbasis.integrals.electron_repulsion:electron_repulsion_integral",
    "gbasis.integrals.point_charge:point_charge_integral",
]

FUNCS = ["overlap", "overlap_screen", "overlap_asymm", "kinetic", "momentum", "angmom", "moment", "point_charge", "nuclear", "eri",
         "eval", "eval_deriv", "eval_deriv_direct", "density", "deriv_density", "gradient", "laplacian", "hessian", "posdef_ked",
         "general_ked", "stress", "force", "ehrenfest_hessian", "esp"]


def _args(I, mk, with_T):
    """fresh argument objects built from the same symbols"""
    A = dict(
        points=mk.array(I["pts"]), P=mk.array(I["P"]), C=mk.array(I["C"]), charges=mk.array(I["q"]),
        ccoords=mk.array(I["R"]), orders=np.array([1, 0, 1]), morders=np.array([[1, 0, 0], [0, 1, 1]]),
    )
    A["T"] = mk.array(I["T"]) if with_T else None
    if with_T:
        A["P"] = mk.array(I["PT"])
    return A


def _call(fn, basis, A, basis2=None):
    T = A["T"]
    if fn == "overlap":
        from gbasis.integrals.overlap import overlap_integral
        return overlap_integral(basis, transform=T)
    if fn == "overlap_screen":
        from gbasis.integrals.overlap import overlap_integral
        return overlap_integral(basis, transform=T, tol_screen=1e-300)
    if fn in ("overlap_screen_str", "overlap_screen_bool", "overlap_screen_one"):
        # malformed and limiting tolerances: a string, a bool, 1 (cutoff 0: everything off-centre is screened);
        # tol_screen = 0 (log 0 = -inf) is outside the engine: infinities are not modelled
        from gbasis.integrals.overlap import overlap_integral
        tol = {"str": "1e-8", "bool": True, "one": 1.0}[fn.rsplit("_", 1)[1]]
        return overlap_integral(basis, transform=T, tol_screen=tol)
    if fn == "overlap_asymm":
        from gbasis.integrals.overlap_asymm import overlap_integral_asymmetric
        return overlap_integral_asymmetric(basis, basis[:1], transform_one=T)
    if fn == "kinetic":
        from gbasis.integrals.kinetic_energy import kinetic_energy_integral
        return kinetic_energy_integral(basis, transform=T)
    if fn == "momentum":
        from gbasis.integrals.momentum import momentum_integral
        return momentum_integral(basis, transform=T)
    if fn == "angmom":
        from gbasis.integrals.angular_momentum import angular_momentum_integral
        return angular_momentum_integral(basis, transform=T)
    if fn == "moment":
        from gbasis.integrals.moment import moment_integral
        return moment_integral(basis, A["C"], A["morders"], transform=T)
    if fn == "point_charge":
        from gbasis.integrals.point_charge import point_charge_integral
        return point_charge_integral(basis, A["ccoords"], A["charges"], transform=T)
    if fn == "nuclear":
        from gbasis.integrals.nuclear_electron_attraction import nuclear_electron_attraction_integral
        return nuclear_electron_attraction_integral(basis, A["ccoords"], A["charges"], transform=T)
    if fn == "eri":
        from gbasis.integrals.electron_repulsion import electron_repulsion_integral
        return electron_repulsion_integral(basis, transform=T)
    if fn == "eval":
        from gbasis.evals.eval import evaluate_basis
        return evaluate_basis(basis, A["points"], transform=T)
    if fn == "eval_deriv":
        from gbasis.evals.eval_deriv import evaluate_deriv_basis
        return evaluate_deriv_basis(basis, A["points"], A["orders"], transform=T)
    if fn == "eval_deriv_direct":
        from gbasis.evals.eval_deriv import evaluate_deriv_basis
        return evaluate_deriv_basis(basis, A["points"], A["orders"], transform=T, deriv_type="direct")
    import gbasis.evals.density as dn
    import gbasis.evals.stress_tensor as st
    if fn == "density":
        return dn.evaluate_density(A["P"], basis, A["points"], transform=T)
    if fn == "deriv_density":
        return dn.evaluate_deriv_density(A["orders"], A["P"], basis, A["points"], transform=T)
    if fn == "gradient":
        return dn.evaluate_density_gradient(A["P"], basis, A["points"], transform=T)
    if fn == "laplacian":
        return dn.evaluate_density_laplacian(A["P"], basis, A["points"], transform=T)
    if fn == "hessian":
        return dn.evaluate_density_hessian(A["P"], basis, A["points"], transform=T)
    if fn == "posdef_ked":
        return dn.evaluate_posdef_kinetic_energy_density(A["P"], basis, A["points"], transform=T)
    if fn == "general_ked":
        return dn.evaluate_general_kinetic_energy_density(A["P"], basis, A["points"], 0.75, transform=T)
    if fn == "stress":
        return st.evaluate_stress_tensor(A["P"], basis, A["points"], alpha=0.75, beta=2, transform=T)
    if fn == "force":
        return st.evaluate_ehrenfest_force(A["P"], basis, A["points"], alpha=0.75, beta=2, transform=T)
    if fn == "ehrenfest_hessian":
        return st.evaluate_ehrenfest_hessian(A["P"], basis, A["points"], alpha=0.75, beta=2, transform=T, symmetric=True)
    if fn == "esp":
        from gbasis.evals.electrostatic_potential import electrostatic_potential
        return electrostatic_potential(basis, A["P"], A["points"], A["ccoords"], A["charges"], transform=T, threshold_dist=0.0)
    raise KeyError(fn)


def _state(basis, A):
    """every element reachable from the arguments, as one flat object array"""
    items = []
    for sh in basis:
        for attr in ("coord", "exps", "coeffs", "norm_cont"):
            items.append(np.asarray(getattr(sh, attr)).view(np.ndarray).ravel())
        items.append(np.array([sh.angmom, 1 if sh.coord_type == "cartesian" else 0], dtype=object))
    for k in sorted(A):
        if A[k] is not None:
            items.append(np.asarray(A[k]).view(np.ndarray).ravel())
    return np.concatenate([np.asarray(x, dtype=object) for x in items])


class Pure(Case):
    prop = "C19"
    canary_scale = "Ae0"
    rtol = 1e-9
    query_timeout = 60000
    conformance = False

    def inputs(self, mk):
        p = self.params
        specs = [shell_spec(mk, "A", 0, 2, 1), shell_spec(mk, "B", 1, 1, 2)]
        nb = 1 + 3 * 2
        nt = 2
        I = dict(specs=specs, pts=[[mk.var("p" + x) for x in "xyz"]], C=[mk.var("C" + x) for x in "xyz"],
                 q=[mk.var("q0")], R=[[mk.var("R" + x) for x in "xyz"]], P=sym_matrix(mk, nb), PT=sym_matrix(mk, nt, "Q"),
                 T=[[mk.var(f"T{i}_{j}") for j in range(nb)] for i in range(nt)])
        if p["fn"] in ("density", "posdef_ked", "general_ked") and p.get("invalid") != "asym":
            # thresholded functions: a concrete positive definite density matrix keeps the run on one path
            # (purity does not depend on the matrix being symbolic; the threshold rule itself is C06)
            I["P"] = [[mk.const(2 if i == j else 0) for j in range(nb)] for i in range(nb)]
            I["PT"] = [[mk.const(3 if i == j else 1) for j in range(nt)] for i in range(nt)]
        if p.get("invalid") == "asym":
            I["P"][0][1] = mk.var("Pasym")
            I["PT"][0][1] = mk.var("Qasym")
        return I

    def _setup(self, I, mk):
        p = self.params
        basis = cm.basis_from(mk, I["specs"], p.get("types", "cc"))
        A = _args(I, mk, bool(p.get("T")))
        inv = p.get("invalid")
        if inv == "shape":
            A["points"] = mk.array([[I["pts"][0][0], I["pts"][0][1]]])
            A["ccoords"] = mk.array([[I["R"][0][0], I["R"][0][1]]])
        return basis, A

    def _run(self, fn, basis, A):
        try:
            if fn in ("density", "posdef_ked", "general_ked"):
                # the evaluation layer (its purity is checked by the eval / eval_deriv cases) is replaced by free
                # symbols so that the sign tests of the thresholded functions stay decidable
                from .c06 import Jets, patched

                nb = np.asarray(A["P"]).shape[0]
                jets = Jets(self._mk, nb, 1, A["T"])
                with patched(jets):
                    return _call(fn, basis, A), 0
            return _call(fn, basis, A), 0
        except (ValueError, TypeError, IndexError):
            return None, 1

    def code(self, I, mk):
        fn = self.params["fn"]
        self._mk = mk
        basis, A = self._setup(I, mk)
        err0 = np.geterr()
        r1, raised1 = self._run(fn, basis, A)
        after = _state(basis, A)
        err_ok = 1 if np.geterr() == err0 else 0
        np.seterr(**err0)
        r2, raised2 = self._run(fn, basis, A)
        out = {"state": after, "flags": np.array([err_ok, raised2], dtype=object)}
        if r2 is not None:
            out["second"] = r2
        return out

    def ref(self, I, ops, mk):
        fn = self.params["fn"]
        self._mk = mk
        basis, A = self._setup(I, mk)
        before = _state(basis, A)
        basis2, A2 = self._setup(I, mk)
        r, raised = self._run(fn, basis2, A2)
        out = {"state": before, "flags": np.array([1, raised], dtype=object)}
        if r is not None:
            out["second"] = r
        return out


class Mutate(Pure):
    """the value depends on the arguments as they are at the time of the call: after a shell of the same basis object
    has been given new exponents and a new centre (and its normalisation recomputed) and the points have been
    overwritten in place, the call on the same objects equals the call on freshly built objects with the new values"""

    def inputs(self, mk):
        I = Pure.inputs(self, mk)
        I["new"] = dict(exps=[mk.var("Ne0", ">0"), mk.var("Ne1", ">0")], A=[mk.var("N" + x) for x in "xyz"],
                        pts=[[mk.var("n" + x) for x in "xyz"]])
        return I

    def _new_specs(self, I):
        specs = [dict(I["specs"][0], exps=I["new"]["exps"], A=I["new"]["A"])] + list(I["specs"][1:])
        return dict(I, specs=specs, pts=I["new"]["pts"])

    def code(self, I, mk):
        fn = self.params["fn"]
        self._mk = mk
        basis, A = self._setup(I, mk)
        r1, _ = self._run(fn, basis, A)
        sh = basis[0]
        sh.exps = mk.array(I["new"]["exps"])
        sh.coord = mk.array(I["new"]["A"])
        sh.assign_norm_cont()
        A["points"][...] = mk.array(I["new"]["pts"])
        r2, raised = self._run(fn, basis, A)
        return {"second": r2, "flags": np.array([raised], dtype=object)}

    def ref(self, I, ops, mk):
        fn = self.params["fn"]
        self._mk = mk
        basis, A = self._setup(self._new_specs(I), mk)
        r, raised = self._run(fn, basis, A)
        return {"second": r, "flags": np.array([raised], dtype=object)}


class Renorm(Case):
    """a shell is unit-normalised as constructed and again after its parameters are changed and the
    normalisation is recomputed"""

    prop = "C19"
    canary_scale = "Ae0"
    query_timeout = 120000

    def inputs(self, mk):
        p = self.params
        return dict(sh=shell_spec(mk, "A", p["l"], p["K"], p["M"]), sh2=shell_spec(mk, "N", p["l"], p["K"], p["M"]))

    def code(self, I, mk):
        from gbasis.integrals.overlap import overlap_integral

        t = cm.LETTER[self.params["type"]]
        s = make_shell(mk, I["sh"], t)
        S0 = overlap_integral([s])
        d0 = np.array([S0[i, i] for i in range(S0.shape[0])], dtype=object)
        s.coeffs = mk.array(I["sh2"]["coeffs"])
        s.exps = mk.array(I["sh2"]["exps"])
        s.assign_norm_cont()
        S1 = overlap_integral([s])
        d1 = np.array([S1[i, i] for i in range(S1.shape[0])], dtype=object)
        # the shell rebuilt from scratch with the new parameters must be the same shell
        fresh = make_shell(mk, dict(I["sh2"], A=I["sh"]["A"]), t)
        return {"d0": d0, "d1": d1, "norm": np.asarray(s.norm_cont).view(np.ndarray)}

    def ref(self, I, ops, mk):
        t = cm.LETTER[self.params["type"]]
        fresh = make_shell(mk, dict(I["sh2"], A=I["sh"]["A"]), t)
        n = (2 * self.params["l"] + 1 if self.params["type"] == "s" else (self.params["l"] + 1) * (self.params["l"] + 2) // 2) * self.params["M"]
        one = np.array([ops.one] * n, dtype=object)
        return {"d0": one, "d1": one, "norm": np.asarray(fresh.norm_cont).view(np.ndarray)}


class FaultNP:
    """numpy stand-in that raises at the k-th numpy call made after a seterr (fault injection between
    seterr and its restoration); forwards everything else"""

    def __init__(self, k):
        self.k = k
        self.count = None
        self.fired = False
        self.seen_seterr = 0

    def __getattr__(self, name):
        v = getattr(np, name)
        if not callable(v) or isinstance(v, type):
            return v

        def f(*a, **kw):
            if name == "seterr":
                self.seen_seterr += 1
                if self.count is None:
                    self.count = 0
                    return v(*a, **kw)
            if name == "errstate":
                outer, cm_ = self, v(*a, **kw)

                class Ctx:
                    def __enter__(s2):
                        outer.seen_seterr += 1
                        if outer.count is None:
                            outer.count = 0
                        return cm_.__enter__()

                    def __exit__(s2, *exc):
                        return cm_.__exit__(*exc)

                return Ctx()
            if self.count is not None and not self.fired:
                self.count += 1
                if self.count == self.k:
                    self.fired = True
                    raise FloatingPointError("injected fault")
            return v(*a, **kw)

        return f


class Fault(Case):
    """electrostatic_potential: an exception raised by the k-th numpy call after `seterr` must not leave the
    process-wide error state changed"""

    prop = "C19"
    concrete_only = True

    def inputs(self, mk):
        return dict(mk=mk)

    def code(self, I, mk):
        import gbasis.evals.electrostatic_potential as esp
        from gbasis.contractions import GeneralizedContractionShell as Sh

        basis = [Sh(0, np.array([0.0, 0.1, 0.2]), np.array([1.0]), np.array([0.7]), "cartesian")]
        fnp = FaultNP(self.params["k"])
        saved = esp.np
        before = np.geterr()
        esp.np = fnp
        raised = 0
        try:
            esp.electrostatic_potential(basis, np.array([[1.0]]), np.array([[0.3, 0.2, 0.1]]), np.array([[1.0, 0.0, 0.0]]),
                                        np.array([2.0]))
        except FloatingPointError:
            raised = 1
        finally:
            esp.np = saved
        after = np.geterr()
        np.seterr(**before)
        return {"restored": np.array([1.0 if after == before else 0.0]), "_fired": fnp.fired, "_raised": raised}

    def ref(self, I, ops, mk):
        return {"restored": np.array([1.0])}

    def replay_compare(self, label, idx, a, b):
        return a != b


class MakeContr(Case):
    """make_contractions leaves its arguments intact (list / tuple / str coordinate types), accepts a tuple, and
    gives the same result when called again with the same objects"""

    prop = "C19"
    concrete_only = True

    def inputs(self, mk):
        return dict(mk=mk)

    def code(self, I, mk):
        from gbasis.parsers import make_contractions

        bd = {"H": [(0, np.array([1.0, 0.5]), np.array([[0.3], [0.7]])), (1, np.array([0.8]), np.array([[1.0]]))],
              "He": [(0, np.array([2.0]), np.array([[1.0]]))]}
        atoms = ["H", "He", "H"]
        coords = np.array([[0.0, 0.0, 0.0], [0.0, 0.0, 1.4], [1.0, 0.0, 0.0]])
        kind = self.params["kind"]
        types = ["spherical", "cartesian", "p", "c", "cartesian"]
        ct = {"list": list(types), "tuple": tuple(types), "str": "spherical"}[kind]
        ct_copy = list(ct) if kind != "str" else ct
        atoms_copy, coords_copy = list(atoms), coords.copy()
        b1 = make_contractions(bd, atoms, coords, ct)
        same_args = (list(ct) if kind != "str" else ct) == ct_copy and atoms == atoms_copy and np.array_equal(coords, coords_copy) \
            and type(ct) is {"list": list, "tuple": tuple, "str": str}[kind]
        b2 = make_contractions(bd, atoms, coords, ct)
        norm = {"c": "cartesian", "p": "spherical", "cartesian": "cartesian", "spherical": "spherical"}
        want = [norm[t] for t in (types if kind != "str" else ["spherical"] * 5)]
        ok_types = [s.coord_type for s in b1] == want and [s.coord_type for s in b2] == want
        ok_centres = [s.icenter for s in b1] == [0, 0, 1, 2, 2] and all(np.array_equal(s.coord, coords[s.icenter]) for s in b1)
        ok_data = [s.angmom for s in b1] == [0, 1, 0, 0, 1] and len(b1) == len(b2) == 5
        return {"ok": np.array([float(same_args), float(ok_types), float(ok_centres), float(ok_data)])}

    def ref(self, I, ops, mk):
        return {"ok": np.array([1.0, 1.0, 1.0, 1.0])}

    def replay_compare(self, label, idx, a, b):
        return a != b


def cases(tier, seed=0):
    out = []
    for fn in FUNCS:
        out.append(Pure(fn=fn))
        if tier == "thorough" or fn in ("overlap", "eri", "eval", "density", "esp", "stress", "moment", "point_charge"):
            out.append(Pure(fn=fn, T=True))
        if tier == "thorough":
            out.append(Pure(fn=fn, types="sc"))
    # deliberately invalid arguments: the call raises (or not) - state must be unchanged either way
    # a matrix that is not exactly symmetric: functions that validate it raise, the others return - the
    # caller's matrix must be left alone either way
    for fn in ("gradient", "esp", "stress", "deriv_density", "force", "ehrenfest_hessian", "laplacian", "hessian"):
        out.append(Pure(fn=fn, invalid="asym"))
    for fn in ("eval", "eval_deriv", "point_charge", "esp", "density"):
        out.append(Pure(fn=fn, invalid="shape"))
    for fn in ("overlap_screen_str", "overlap_screen_bool", "overlap_screen_one"):
        out.append(Pure(fn=fn))
    # parameters changed in place between two calls on the same objects
    for fn in ("overlap", "eval", "eval_deriv", "deriv_density", "stress", "point_charge") + (("kinetic", "eri", "hessian", "force", "esp") if tier == "thorough" else ()):
        out.append(Mutate(fn=fn))
    for l, K, M, t in [(0, 2, 1, "c"), (1, 2, 2, "c"), (2, 1, 1, "s")] + ([(2, 2, 2, "c"), (3, 1, 1, "c")] if tier == "thorough" else []):
        out.append(Renorm(l=l, K=K, M=M, type=t))
    for k in range(1, 9):
        out.append(Fault(k=k))
    for kind in ("list", "tuple", "str"):
        out.append(MakeContr(kind=kind))
    return out


def main(tier="quick", seed=0, only=None):
    cs = cm.parse_only(cases(tier, seed), only)
    bounds = {
        "functions": "every public integral / evaluation / density / stress-tensor / ESP entry point (%d), each from an arbitrary symbolic state of a "
                     "2-shell (s generalized K=2, p with 2 columns) basis, 1 point, 1 charge, symbolic density matrix; with and without transform; "
                     "invalid variants (asymmetric matrix, wrong shapes)" % len(FUNCS),
        "induction": "one call from an arbitrary state + a second call on the same objects; sequences of any length follow",
        "faults": "fault points 1..8 after seterr in electrostatic_potential (each intercepted numpy call raises)",
        "renormalisation": "l <= 2 (3 thorough), K <= 2, M <= 2, cartesian and spherical",
        "outside": "the parsers' file handling; objects not reachable from the arguments (module globals are inspected only through numpy's error state)",
    }
    assumptions = ["real-number semantics", "an in-place change of an argument is visible as a changed element (object arrays hold the symbols)"]
    return run_property("C19", cs, tier, seed, ENCODED, bounds, assumptions, title="Purity.")
