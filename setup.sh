#!/bin/sh
# Build the overlay venv used by every check (offline; wheelhouse only).
set -e
cd "$(dirname "$0")"
V=.venv
if [ ! -x "$V/bin/python" ] || ! "$V/bin/python" -c "import z3, numpy, scipy" 2>/dev/null; then
  rm -rf "$V"
  /venv/bin/python -m venv "$V"
  SP=$("$V/bin/python" -c "import sysconfig;print(sysconfig.get_paths()['purelib'])")
  printf "import site; site.addsitedir('/venv/lib/python3.12/site-packages')\n" > "$SP/_overlay.pth"
  PIP_NO_INDEX=1 "$V/bin/python" -m pip install -q --no-index --find-links /opt/veriftools/wheels z3-solver cvc5 crosshair-tool
fi
"$V/bin/python" -c "import z3, cvc5, crosshair, numpy, scipy; print('verif venv ok', z3.get_version_string())"
