"""worker process: runs a list of cases one after the other
   stdin : {"cases": [[index, [module, class, params, tier, seed]], ...]}
   stdout: "BEGIN <index>" before and "RESULT <index> <json>" after each case"""
import json
import sys
import warnings

warnings.filterwarnings("ignore")


def main():
    from sx import harness

    req = json.loads(sys.stdin.read())
    for idx, a in req["cases"]:
        sys.stdout.write(f"\nBEGIN {idx}\n")
        sys.stdout.flush()
        r = harness._worker(tuple(a))
        sys.stdout.write(f"\nRESULT {idx} " + json.dumps(r, default=str) + "\n")
        sys.stdout.flush()


if __name__ == "__main__":
    main()
