"""numpy / scipy proxies that keep the real gbasis code inside the symbolic domain.

Nothing in /repo is edited: `install(ctx)` replaces, in every loaded ``gbasis.*`` module, each
global that *is* the numpy module (or scipy / scipy.special, or one of the overridden callables,
however it was imported or renamed) by a proxy.  `uninstall()` restores the originals.
"""
import math
import sys
import types
from fractions import Fraction

import numpy as real_np
import scipy as real_scipy
import scipy.special as real_special

from . import core
from .core import Sym, CSym, SymFloat, lift, ZERO, ONE

_ND_DTYPE = real_np.ndarray.dtype


def true_dtype(a):
    return _ND_DTYPE.__get__(a)


class SymArray(real_np.ndarray):
    """object ndarray whose Python-level dtype reports float64 (passes `dtype == float` checks)"""

    @property
    def dtype(self):
        return real_np.dtype(float)

    def __array_wrap__(self, arr, context=None, return_scalar=False):
        if arr.ndim == 0 and true_dtype(arr) == object:
            return arr[()]
        if true_dtype(arr) == object:
            return arr.view(SymArray)
        return arr.view(real_np.ndarray)

    def astype(self, dtype, *a, **k):
        if dtype in (float, real_np.float64):
            return self.copy()
        return real_np.ndarray.astype(self.view(real_np.ndarray), dtype, *a, **k)

    def __reduce__(self):
        raise TypeError("SymArray is not picklable")


def wrap(x):
    if isinstance(x, real_np.ndarray):
        if true_dtype(x) == object:
            if x.ndim == 0 and isinstance(x[()], (Sym, CSym)):
                return x[()]
            if type(x) is not SymArray:
                return x.view(SymArray)
        return x
    if isinstance(x, tuple):
        return tuple(wrap(i) for i in x)
    if isinstance(x, list):
        return [wrap(i) for i in x]
    return x


def sym_array(a):
    """make an input array for the real code from nested lists / arrays of Sym"""
    arr = real_np.empty(real_np.shape(a), dtype=object)
    src = real_np.asarray(a, dtype=object)
    for idx in real_np.ndindex(*arr.shape):
        arr[idx] = src[idx]
    return arr.view(SymArray)


def plain(a):
    """SymArray / object array -> plain object ndarray"""
    a = real_np.asarray(a)
    return a.view(real_np.ndarray)


class State:
    ctx = None
    installed = []  # (module, name, original)
    seterr_log = []
    fault_hook = None  # callable(name) that may raise, for C19 fault injection


def _ctx():
    if State.ctx is None:
        raise RuntimeError("shim used without an active context")
    return State.ctx


def _to_obj(x):
    """array-like of numbers / Sym -> object ndarray of Sym"""
    c = _ctx()
    if isinstance(x, (Sym, CSym)):
        return x
    if isinstance(x, SymFloat):
        return x.sym
    a = real_np.asarray(x)
    if true_dtype(a) != object:
        if a.ndim == 0:
            return lift(c, a.item())
        out = real_np.empty(a.shape, dtype=object)
        for idx in real_np.ndindex(*a.shape):
            out[idx] = lift(c, a[idx])
        return out
    if a.ndim == 0:
        v = a[()]
        return v if isinstance(v, CSym) else lift(c, v)
    return a


def _sf(v):
    """a symbolic float parameter stands for its symbol (its nominal value must never be looked at)"""
    if isinstance(v, SymFloat):
        a = real_np.empty((), dtype=object)
        a[()] = v.sym
        return a
    return v


def _elementwise(fn, x):
    if isinstance(x, (str, bytes)) or x is None:
        # what the numpy ufunc does with such an operand
        raise TypeError(f"ufunc not supported for the input type {type(x).__name__}")
    x = _to_obj(x)
    if isinstance(x, (Sym, CSym)):
        return fn(x)
    c = _ctx()
    out = real_np.empty(x.shape, dtype=object)
    for idx in real_np.ndindex(*x.shape):
        out[idx] = fn(lift(c, x[idx]))
    return out.view(SymArray)


def _filled(shape, value):
    arr = real_np.empty(shape, dtype=object)
    arr.fill(value)
    return arr.view(SymArray)


def _is_float_dtype(dtype):
    return dtype is None or dtype is float or dtype == real_np.float64


class _Wrapped:
    """callable proxy for a numpy function: forwards, then re-wraps object results"""

    def __init__(self, fn, name):
        self._fn = fn
        self._name = name

    def __call__(self, *a, **k):
        if State.fault_hook is not None:
            State.fault_hook(self._name)
        return wrap(self._fn(*a, **k))

    def __getattr__(self, name):
        return getattr(self._fn, name)


class LinalgProxy:
    def __getattr__(self, name):
        return getattr(real_np.linalg, name)

    @staticmethod
    def norm(x, *a, **k):
        if a or k:
            raise core.Unsupported("linalg.norm with options")
        x = _to_obj(x)
        c = _ctx()
        tot = ZERO(c)
        for v in real_np.asarray(x, dtype=object).ravel():
            tot = tot + v * v
        return tot.sqrt()


class ErrState:
    def __init__(self, **kw):
        self.kw = kw

    def __enter__(self):
        State.seterr_log.append(("errstate-enter", dict(self.kw)))
        self._cm = real_np.errstate(**self.kw)
        return self._cm.__enter__()

    def __exit__(self, *exc):
        State.seterr_log.append(("errstate-exit", {}))
        return self._cm.__exit__(*exc)


class NumpyProxy(types.ModuleType):
    def __init__(self):
        super().__init__("numpy_sx_proxy")
        self.__dict__["linalg"] = LinalgProxy()
        self.__dict__["_cache"] = {}

    def __getattr__(self, name):
        cache = self.__dict__["_cache"]
        if name in cache:
            return cache[name]
        v = getattr(real_np, name)
        if callable(v) and not isinstance(v, type):
            v = _Wrapped(v, name)
        cache[name] = v
        return v

    @property
    def pi(self):
        return _ctx().pi()

    # ---- allocation
    @staticmethod
    def zeros(shape, dtype=None, **k):
        if not _is_float_dtype(dtype):
            return real_np.zeros(shape, dtype=dtype, **k)
        return _filled(shape, ZERO(_ctx()))

    @staticmethod
    def ones(shape, dtype=None, **k):
        if not _is_float_dtype(dtype):
            return real_np.ones(shape, dtype=dtype, **k)
        return _filled(shape, ONE(_ctx()))

    @staticmethod
    def empty(shape, dtype=None, **k):
        if not _is_float_dtype(dtype):
            return real_np.empty(shape, dtype=dtype, **k)
        return _filled(shape, ZERO(_ctx()))

    @staticmethod
    def zeros_like(a, dtype=None, **k):
        if true_dtype(real_np.asarray(a)) == object or _is_float_dtype(dtype) and real_np.asarray(a).dtype.kind == "f":
            return _filled(real_np.shape(a), ZERO(_ctx()))
        return real_np.zeros_like(a, dtype=dtype, **k)

    @staticmethod
    def ones_like(a, dtype=None, **k):
        if true_dtype(real_np.asarray(a)) == object or _is_float_dtype(dtype) and real_np.asarray(a).dtype.kind == "f":
            return _filled(real_np.shape(a), ONE(_ctx()))
        return real_np.ones_like(a, dtype=dtype, **k)

    @staticmethod
    def full(shape, fill_value, dtype=None, **k):
        fv = real_np.asarray(fill_value)
        if true_dtype(fv) == object or isinstance(fill_value, (Sym, SymFloat)):
            out = real_np.empty(shape, dtype=object)
            out[...] = fv.view(real_np.ndarray) if fv.ndim else fill_value
            return out.view(SymArray)
        if _is_float_dtype(dtype) and fv.dtype.kind == "f":
            out = real_np.empty(shape, dtype=object)
            out[...] = _to_obj(fv)
            return out.view(SymArray)
        return real_np.full(shape, fill_value, dtype=dtype, **k)

    @staticmethod
    def identity(n, dtype=None):
        if not _is_float_dtype(dtype):
            return real_np.identity(n, dtype=dtype)
        c = _ctx()
        out = _filled((n, n), ZERO(c))
        for i in range(n):
            out[i, i] = ONE(c)
        return out

    @staticmethod
    def eye(n, *a, dtype=None, **k):
        if not _is_float_dtype(dtype) or a or k:
            return real_np.eye(n, *a, dtype=dtype or float, **k)
        return NumpyProxy.identity(n)

    @staticmethod
    def array(obj, *a, **k):
        if isinstance(obj, SymFloat):
            out = real_np.empty((), dtype=object)
            out[()] = obj.sym
            return out.view(SymArray)
        if isinstance(obj, (Sym, CSym)):
            out = real_np.empty((), dtype=object)
            out[()] = obj
            return out.view(SymArray)
        if isinstance(obj, real_np.ndarray) and true_dtype(obj) == object and _is_float_dtype(k.get("dtype", a[0] if a else None)):
            # a symbolic array stands for a float64 array: dtype=float is a no-op conversion; np.array copies
            return obj.copy() if k.get("copy", True) is not False else obj
        return wrap(real_np.array(obj, *a, **k))

    @staticmethod
    def asarray(obj, *a, **k):
        if isinstance(obj, (SymFloat, Sym, CSym)):
            return NumpyProxy.array(obj)
        if isinstance(obj, real_np.ndarray) and true_dtype(obj) == object and _is_float_dtype(k.get("dtype", a[0] if a else None)):
            return obj  # like numpy: asarray of a float64 array with dtype=float returns the array itself
        return wrap(real_np.asarray(obj, *a, **k))

    # ---- transcendental / inexact on floats
    @staticmethod
    def sqrt(x):
        return _elementwise(lambda v: v.sqrt(), x)

    @staticmethod
    def exp(x):
        return _elementwise(lambda v: v.exp(), x)

    @staticmethod
    def log(x):
        return _elementwise(lambda v: v.log(), x)

    @staticmethod
    def power(x, p):
        x = _to_obj(x)
        return wrap(x**p)

    @staticmethod
    def cbrt(x):
        return _elementwise(lambda v: v ** Fraction(1, 3), x)

    @staticmethod
    def real(x):
        if isinstance(x, (Sym, CSym)):
            return x.real
        a = real_np.asarray(x)
        if true_dtype(a) == object:
            return _elementwise_any(lambda v: core.real_part(_ctx(), v), a)
        return real_np.real(x)

    @staticmethod
    def imag(x):
        if isinstance(x, (Sym, CSym)):
            return x.imag
        a = real_np.asarray(x)
        if true_dtype(a) == object:
            return _elementwise_any(lambda v: core.imag_part(_ctx(), v), a)
        return real_np.imag(x)

    @staticmethod
    def conj(x):
        if isinstance(x, (Sym, CSym)):
            return x.conjugate()
        a = real_np.asarray(x)
        if true_dtype(a) == object:
            return _elementwise_any(lambda v: v.conjugate() if hasattr(v, "conjugate") else v, a)
        return real_np.conj(x)

    conjugate = conj

    @staticmethod
    def isfinite(x):
        a = real_np.asarray(x)
        if true_dtype(a) == object:
            return real_np.ones(a.shape, dtype=bool)
        return real_np.isfinite(x)

    @staticmethod
    def isnan(x):
        a = real_np.asarray(x)
        if true_dtype(a) == object:
            return real_np.zeros(a.shape, dtype=bool)
        return real_np.isnan(x)

    @staticmethod
    def isclose(a, b, rtol=1e-05, atol=1e-08, equal_nan=False):
        a, b = [_sf(v) for v in (a, b)]
        a, b = real_np.broadcast_arrays(real_np.asarray(a), real_np.asarray(b))
        if true_dtype(a) != object and true_dtype(b) != object:
            return real_np.isclose(a, b, rtol=rtol, atol=atol, equal_nan=equal_nan)
        c = _ctx()
        out = real_np.empty(a.shape, dtype=bool)
        for idx in real_np.ndindex(*a.shape):
            x, y = lift(c, a[idx]), lift(c, b[idx])
            # |x - y| <= atol + rtol*|y| decided by the solver (path split if both feasible)
            out[idx] = bool(abs(x - y) <= atol + rtol * abs(y))
        return out

    @staticmethod
    def allclose(a, b, rtol=1e-05, atol=1e-08, equal_nan=False):
        a, b = [_sf(v) for v in (a, b)]
        a0, b0 = real_np.asarray(a), real_np.asarray(b)
        if true_dtype(a0) != object and true_dtype(b0) != object:
            return real_np.allclose(a, b, rtol=rtol, atol=atol, equal_nan=equal_nan)
        a0, b0 = real_np.broadcast_arrays(a0, b0)
        c = _ctx()
        for idx in real_np.ndindex(*a0.shape):
            x, y = a0[idx], b0[idx]
            if x is y:
                continue
            x, y = lift(c, x), lift(c, y)
            if x.L is None and y.L is None and c.prove_equal(x, y, kind="allclose"):
                continue
            if not bool(abs(x - y) <= atol + rtol * abs(y)):
                return False
        return True

    @staticmethod
    def array_equal(a, b, **k):
        a, b = [_sf(v) for v in (a, b)]
        a0, b0 = real_np.asarray(a), real_np.asarray(b)
        if true_dtype(a0) != object and true_dtype(b0) != object:
            return real_np.array_equal(a, b, **k)
        if a0.shape != b0.shape:
            return False
        return all(bool(x == y) for x, y in zip(a0.ravel(), b0.ravel()))

    @staticmethod
    def unique(ar, return_index=False, return_inverse=False, return_counts=False, axis=None, **k):
        """numpy.unique for 1-D symbolic arrays: the order and the coincidences of the elements are decided by
        comparisons, each of which is a path split (every ordering / coincidence pattern is a path)"""
        a0 = real_np.asarray(ar)
        if true_dtype(a0) != object:
            return real_np.unique(ar, return_index=return_index, return_inverse=return_inverse, return_counts=return_counts, axis=axis, **k)
        if axis is not None or k:
            raise core.Unsupported("numpy.unique with axis / extra options on a symbolic array")
        flat = list(a0.ravel())
        order = []  # indices sorted by value (insertion sort, stable)
        for i, v in enumerate(flat):
            pos = len(order)
            for j, o in enumerate(order):
                if bool(v < flat[o]):
                    pos = j
                    break
            order.insert(pos, i)
        groups = []  # runs of equal values
        for i in order:
            if groups and bool(flat[groups[-1][0]] == flat[i]):
                groups[-1].append(i)
            else:
                groups.append([i])
        vals = real_np.empty(len(groups), dtype=object)
        for g, grp in enumerate(groups):
            vals[g] = flat[grp[0]]
        out = [vals.view(SymArray)]
        if return_index:
            out.append(real_np.array([min(grp) for grp in groups], dtype=real_np.intp))
        if return_inverse:
            inv = real_np.empty(len(flat), dtype=real_np.intp)
            for g, grp in enumerate(groups):
                for i in grp:
                    inv[i] = g
            out.append(inv)
        if return_counts:
            out.append(real_np.array([len(grp) for grp in groups], dtype=real_np.intp))
        return out[0] if len(out) == 1 else tuple(out)

    # ---- floating point error state (recorded, forwarded)
    @staticmethod
    def seterr(**kw):
        State.seterr_log.append(("seterr", dict(kw)))
        return real_np.seterr(**kw)

    @staticmethod
    def geterr():
        return real_np.geterr()

    @staticmethod
    def errstate(**kw):
        return ErrState(**kw)


def _elementwise_any(fn, a):
    out = real_np.empty(a.shape, dtype=object)
    for idx in real_np.ndindex(*a.shape):
        out[idx] = fn(a[idx])
    if out.ndim == 0:
        return out[()]
    return out.view(SymArray)


# --------------------------------------------------------------------------------------------
# scipy.special stubs: exact integer combinatorics, Boys function, Hermite recurrence


def _int_of(v):
    if isinstance(v, Sym):
        assert v.is_const and v.k.denominator == 1
        return int(v.k)
    f = float(v)
    if f != int(f):
        raise core.Unsupported(f"non-integer combinatorial argument {v}")
    return int(f)


def _exact_int_fn(fn):
    def g(*args, **kw):
        kw.pop("exact", None)
        kw.pop("repetition", None)
        arrs = real_np.broadcast_arrays(*[real_np.asarray(a) for a in args])
        if arrs[0].ndim == 0:
            v = fn(*[_int_of(a[()]) for a in arrs])
            if any(isinstance(a, real_np.ndarray) for a in args) and abs(v) < 2**62:
                return real_np.array(v)
            return v
        out = real_np.empty(arrs[0].shape, dtype=real_np.int64)
        big = False
        vals = {}
        for idx in real_np.ndindex(*arrs[0].shape):
            v = fn(*[_int_of(a[idx]) for a in arrs])
            vals[idx] = v
            if abs(v) >= 2**62:
                big = True
        if big:
            out = real_np.empty(arrs[0].shape, dtype=object)
        for idx, v in vals.items():
            out[idx] = v
        return out

    return g


def _fact2(n):
    # scipy convention: n!! = 0 for n < -1 ... gbasis.utils maps every non-positive result to 1
    if n <= 0:
        return 0 if n < -1 else 1
    r = 1
    while n > 1:
        r *= n
        n -= 2
    return r


def _fact(n):
    return math.factorial(n) if n >= 0 else 0


def _comb(n, k):
    if k < 0 or k > n or n < 0:
        return 0
    return math.comb(n, k)


def _perm(n, k):
    if k < 0 or k > n or n < 0:
        return 0
    return math.perm(n, k)


factorial2_stub = _exact_int_fn(_fact2)
comb_stub = _exact_int_fn(_comb)
perm_stub = _exact_int_fn(_perm)
_factorial_int = _exact_int_fn(_fact)


def factorial_stub(n, exact=False):
    """exact factorial returned as Sym constants (so that later `/` stays exact)"""
    c = _ctx()
    r = _factorial_int(n)
    if isinstance(r, real_np.ndarray):
        out = real_np.empty(r.shape, dtype=object)
        for idx in real_np.ndindex(*r.shape):
            out[idx] = Sym(c, Fraction(int(r[idx])))
        return out.view(SymArray)
    return Sym(c, Fraction(int(r)))


def hyp1f1_stub(a, b, x):
    """hyp1f1(m+1/2, m+3/2, -T) = (2m+1) F_m(T); anything else is unsupported"""
    c = _ctx()
    a0, b0, x0 = real_np.broadcast_arrays(real_np.asarray(a), real_np.asarray(b), real_np.asarray(x, dtype=object))
    out = real_np.empty(a0.shape, dtype=object)
    for idx in real_np.ndindex(*a0.shape):
        m = Fraction(float(a0[idx])) - Fraction(1, 2)
        if m.denominator != 1 or Fraction(float(b0[idx])) != m + Fraction(3, 2) or m < 0:
            raise core.Unsupported("hyp1f1 outside the Boys-function pattern")
        m = int(m)
        out[idx] = core.boys(c, m, -lift(c, x0[idx])) * (2 * m + 1)
    if out.ndim == 0:
        return out[()]
    return out.view(SymArray)


def eval_hermite_stub(n, x):
    c = _ctx()
    n0, x0 = real_np.broadcast_arrays(real_np.asarray(n), real_np.asarray(x, dtype=object))
    out = real_np.empty(n0.shape, dtype=object)
    for idx in real_np.ndindex(*n0.shape):
        k = _int_of(n0[idx])
        v = lift(c, x0[idx])
        if k < 0:
            raise core.Unsupported("hermite of negative order")
        h0, h1 = ONE(c), 2 * v
        if k == 0:
            out[idx] = h0
            continue
        for j in range(1, k):
            h0, h1 = h1, 2 * v * h1 - 2 * j * h0
        out[idx] = h1
    if out.ndim == 0:
        return out[()]
    return out.view(SymArray)


class SpecialProxy(types.ModuleType):
    def __init__(self):
        super().__init__("scipy_special_sx_proxy")

    def __getattr__(self, name):
        if name in SPECIAL_OVERRIDES:
            return SPECIAL_OVERRIDES[name]
        v = getattr(real_special, name)
        if callable(v):
            def unsupported(*a, **k):
                raise core.Unsupported(f"scipy.special.{name} has no exact stub")
            return unsupported
        return v


SPECIAL_OVERRIDES = {
    "factorial2": factorial2_stub,
    "factorial": factorial_stub,
    "comb": comb_stub,
    "perm": perm_stub,
    "hyp1f1": hyp1f1_stub,
    "eval_hermite": eval_hermite_stub,
}


class ScipyProxy(types.ModuleType):
    def __init__(self):
        super().__init__("scipy_sx_proxy")
        self.__dict__["special"] = SPECIAL

    def __getattr__(self, name):
        return getattr(real_scipy, name)


NP = NumpyProxy()
SPECIAL = SpecialProxy()
SCIPY = ScipyProxy()

# identity map: real callable -> shim
_BY_ID = {}
for _name, _stub in SPECIAL_OVERRIDES.items():
    _BY_ID[id(getattr(real_special, _name))] = _stub
for _name in ("sqrt", "exp", "log", "zeros", "ones", "empty", "full", "array", "asarray", "allclose", "isclose",
              "seterr", "geterr", "errstate", "power", "identity", "eye", "zeros_like", "ones_like", "real", "imag",
              "conj", "conjugate", "isfinite", "isnan", "array_equal", "cbrt"):
    _BY_ID[id(getattr(real_np, _name))] = getattr(NumpyProxy, _name)
_BY_ID[id(real_np.linalg.norm)] = LinalgProxy.norm
_PI_FLOAT = real_np.pi


def gbasis_modules():
    return [m for n, m in sorted(sys.modules.items()) if (n == "gbasis" or n.startswith("gbasis.")) and m is not None]


def install(ctx, modules=None):
    """patch every loaded gbasis module; returns the list of (module, name) patched"""
    uninstall()
    State.ctx = ctx
    State.seterr_log = []
    patched = []
    for mod in modules or gbasis_modules():
        for name, val in list(vars(mod).items()):
            new = None
            if val is real_np:
                new = NP
            elif val is real_scipy:
                new = SCIPY
            elif val is real_special:
                new = SPECIAL
            elif val is real_np.linalg:
                new = NP.linalg
            elif isinstance(val, float) and val == _PI_FLOAT and name.lower() == "pi":
                new = ctx.pi()
            elif id(val) in _BY_ID and not isinstance(val, type):
                new = _BY_ID[id(val)]
            if new is not None:
                State.installed.append((mod, name, val))
                setattr(mod, name, new)
                patched.append((mod.__name__, name))
    return patched


def uninstall():
    for mod, name, val in reversed(State.installed):
        setattr(mod, name, val)
    State.installed = []
    State.ctx = None
    State.fault_hook = None


def import_gbasis_all():
    """import every gbasis module that the checks touch (from /repo's working tree)"""
    import importlib

    names = [
        "gbasis.utils", "gbasis.contractions", "gbasis.spherical", "gbasis.base", "gbasis.base_one",
        "gbasis.base_two_symm", "gbasis.base_two_asymm", "gbasis.base_four_symm", "gbasis.parsers",
        "gbasis.wrappers",
        "gbasis.integrals._moment_int", "gbasis.integrals._diff_operator_int", "gbasis.integrals._one_elec_int",
        "gbasis.integrals._two_elec_int", "gbasis.integrals.overlap", "gbasis.integrals.overlap_asymm",
        "gbasis.integrals.kinetic_energy", "gbasis.integrals.moment", "gbasis.integrals.momentum",
        "gbasis.integrals.angular_momentum", "gbasis.integrals.point_charge",
        "gbasis.integrals.nuclear_electron_attraction", "gbasis.integrals.electron_repulsion",
        "gbasis.evals._deriv", "gbasis.evals.eval", "gbasis.evals.eval_deriv", "gbasis.evals.density",
        "gbasis.evals.electrostatic_potential", "gbasis.evals.stress_tensor",
    ]
    mods = {}
    for n in names:
        mods[n] = importlib.import_module(n)
    return mods
