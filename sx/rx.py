"""Python `re` pattern -> z3 regular expression (enough of the syntax for the parsers' patterns),
and regular-language obligations decided by z3's sequence theory."""
import re
import time

import z3

try:
    import re._parser as sre_parse  # py3.11+
    import re._constants as sre_c
except ImportError:  # pragma: no cover
    import sre_parse
    import sre_constants as sre_c

WORD = z3.Union(z3.Range("a", "z"), z3.Range("A", "Z"), z3.Range("0", "9"), z3.Re("_"))
DIGIT = z3.Range("0", "9")
SPACE = z3.Union(*[z3.Re(c) for c in " \t\n\r\x0b\x0c"])
# bounded alphabet for complements: printable ASCII + whitespace controls
ALPHABET = z3.Union(z3.Range(" ", "~"), z3.Re("\t"), z3.Re("\n"), z3.Re("\r"), z3.Re("\x0b"), z3.Re("\x0c"))
ANY_NO_NL = z3.Union(z3.Range(" ", "~"), z3.Re("\t"), z3.Re("\r"), z3.Re("\x0b"), z3.Re("\x0c"))


class Unsupported(Exception):
    pass


def _category(cat, negate=False):
    m = {sre_c.CATEGORY_DIGIT: DIGIT, sre_c.CATEGORY_SPACE: SPACE, sre_c.CATEGORY_WORD: WORD}
    if cat in m:
        return m[cat]
    neg = {sre_c.CATEGORY_NOT_DIGIT: DIGIT, sre_c.CATEGORY_NOT_SPACE: SPACE, sre_c.CATEGORY_NOT_WORD: WORD}
    if cat in neg:
        return z3.Intersect(ALPHABET, z3.Complement(neg[cat]))
    raise Unsupported(str(cat))


def _conv(items):
    parts = []
    for op, av in items:
        if op == sre_c.LITERAL:
            parts.append(z3.Re(chr(av)))
        elif op == sre_c.NOT_LITERAL:
            parts.append(z3.Intersect(ALPHABET, z3.Complement(z3.Re(chr(av)))))
        elif op == sre_c.ANY:
            parts.append(ANY_NO_NL)
        elif op == sre_c.IN:
            neg = False
            alts = []
            for o2, a2 in av:
                if o2 == sre_c.NEGATE:
                    neg = True
                elif o2 == sre_c.LITERAL:
                    alts.append(z3.Re(chr(a2)))
                elif o2 == sre_c.RANGE:
                    alts.append(z3.Range(chr(a2[0]), chr(a2[1])))
                elif o2 == sre_c.CATEGORY:
                    alts.append(_category(a2))
                else:
                    raise Unsupported(str(o2))
            r = alts[0] if len(alts) == 1 else z3.Union(*alts)
            parts.append(z3.Intersect(ALPHABET, z3.Complement(r)) if neg else r)
        elif op == sre_c.CATEGORY:
            parts.append(_category(av))
        elif op in (sre_c.MAX_REPEAT, sre_c.MIN_REPEAT):
            lo, hi, sub = av
            r = _conv(sub)
            if hi == sre_c.MAXREPEAT:
                if lo == 0:
                    parts.append(z3.Star(r))
                elif lo == 1:
                    parts.append(z3.Plus(r))
                else:
                    parts.append(z3.Concat(*([r] * lo), z3.Star(r)))
            else:
                if lo == 0 and hi == 1:
                    parts.append(z3.Option(r))
                else:
                    parts.append(z3.Loop(r, lo, hi))
        elif op == sre_c.SUBPATTERN:
            parts.append(_conv(av[3]))
        elif op == sre_c.BRANCH:
            parts.append(z3.Union(*[_conv(b) for b in av[1]]))
        elif op == sre_c.AT:
            # anchors are handled by the caller (patterns here use ^ and $ only at the ends of whole-line matches)
            if av in (sre_c.AT_BEGINNING, sre_c.AT_END, sre_c.AT_BEGINNING_STRING, sre_c.AT_END_STRING):
                continue
            raise Unsupported(str(av))
        else:
            raise Unsupported(str(op))
    if not parts:
        return z3.Re("")
    return parts[0] if len(parts) == 1 else z3.Concat(*parts)


def to_z3(pattern):
    return _conv(sre_parse.parse(pattern))


def anchored(pattern):
    items = list(sre_parse.parse(pattern))
    begin = bool(items) and items[0][0] == sre_c.AT and items[0][1] in (sre_c.AT_BEGINNING, sre_c.AT_BEGINNING_STRING)
    end = bool(items) and items[-1][0] == sre_c.AT and items[-1][1] in (sre_c.AT_END, sre_c.AT_END_STRING)
    return begin, end


def search_language(pattern, line=True):
    """language of the strings in which re.search(pattern, s) succeeds (s without newline if line=True);
    '$' also matches before a trailing newline in Python - strings here carry no trailing newline"""
    r = to_z3(pattern)
    b, e = anchored(pattern)
    any_ = z3.Star(ANY_NO_NL if line else ALPHABET)
    parts = ([] if b else [any_]) + [r] + ([] if e else [any_])
    return parts[0] if len(parts) == 1 else z3.Concat(*parts)


class Decider:
    def __init__(self, timeout_ms=20000):
        self.timeout = timeout_ms
        self.queries = 0
        self.seconds = 0.0
        self.log = []

    def _check(self, constraints):
        s = z3.Solver()
        s.set("timeout", self.timeout)
        x = z3.String("s")
        for c in constraints(x):
            s.add(c)
        t = time.time()
        r = s.check()
        self.queries += 1
        self.seconds += time.time() - t
        w = None
        if r == z3.sat:
            w = s.model()[x]
            w = w.as_string() if w is not None else ""
        return str(r), w

    def subset(self, a, b, maxlen=40):
        """L(a) ⊆ L(b)?  returns (status, witness in a \\ b)"""
        return self._check(lambda x: [z3.InRe(x, a), z3.Not(z3.InRe(x, b)), z3.Length(x) <= maxlen])

    def disjoint(self, a, b, maxlen=40):
        return self._check(lambda x: [z3.InRe(x, a), z3.InRe(x, b), z3.Length(x) <= maxlen])

    def nonempty(self, a, maxlen=40):
        return self._check(lambda x: [z3.InRe(x, a), z3.Length(x) <= maxlen])


def decode_z3_string(w):
    """z3 prints non-printables as \\u{..}"""
    if w is None:
        return None
    return re.sub(r"\\u\{([0-9a-fA-F]+)\}", lambda m: chr(int(m.group(1), 16)), w)
