"""Replay a solver witness on the unpatched library (fresh process, floats, public code paths).

usage: python -m sx.replay <replay.json>      prints   REPLAY {"status": "reproduced"|"not-reproduced"|"error", ...}
exit status 0 = not reproduced, 1 = reproduced (a violation of the property at this input), 3 = error
"""
import importlib
import json
import sys
import warnings
from fractions import Fraction

import numpy as np

warnings.filterwarnings("ignore")


def load_values(raw):
    vals = {}
    for k, (a, b) in raw.items():
        vals[k] = float.fromhex(a) if b is None else float(Fraction(int(a), int(b)))
    return vals


def main(path):
    from sx.harness import FloatMaker, flatten, fparts
    from refs.gauss import FloatOps

    p = json.load(open(path))
    if p.get("kind") == "regex":
        # witness of a regular-language obligation: evaluated with Python's own `re` on the pattern taken from
        # the current source (p["where"] = function / index of the pattern)
        import re
        from checks.c18 import extract_patterns

        pat = extract_patterns()[p["where"][0]][p["where"][1]]
        text = p["text"]
        if p["mode"] == "fullmatch":
            ok = re.fullmatch(pat, text) is not None
        else:
            ok = re.search(pat, text) is not None
        bad = ok != p["expect"]
        return ("reproduced" if bad else "not-reproduced"), f"re.{p['mode']}({pat!r}, {text!r}) -> {ok}, expected {p['expect']}"
    if p.get("kind") == "pycall":
        m = importlib.import_module(p["module"])
        try:
            r = eval(p["call"], vars(m))
            bad = not bool(r)
            detail = f"{p['call']} returned {r!r}"
        except BaseException as e:  # noqa: BLE001
            bad, detail = True, f"{p['call']} raised {type(e).__name__}: {e}"
        return ("reproduced" if bad else "not-reproduced"), detail
    mod = importlib.import_module(p["module"])
    case = getattr(mod, p["cls"])(**p["params"])
    vals = load_values(p["values"])
    for n, q in (case.concrete or {}).items():
        vals.setdefault(n, float(Fraction(q)))
    mk = FloatMaker(vals)
    I = case.inputs(mk)
    if hasattr(case, "replay_custom"):
        return case.replay_custom(I, mk)
    raised = None
    out = None
    try:
        out = case.code(I, mk)
    except (ValueError, TypeError, ZeroDivisionError, UnboundLocalError, KeyError, IndexError, AttributeError) as e:
        raised = type(e).__name__
    per_path = hasattr(case, "path_obligations")
    try:
        if per_path:
            ref = case.ref_concrete(I, FloatOps, mk)
        else:
            ref = case.ref(I, FloatOps, mk)
    except (ValueError, TypeError, IndexError, KeyError, ZeroDivisionError, AttributeError) as e:
        from sx.harness import _raised_in_library

        if not _raised_in_library(e):
            raise
        # the oracle of a code-vs-code obligation is a library call equivalent to the one under test
        if raised is None:
            return "reproduced", f"the equivalent library call on the oracle side raised {type(e).__name__}: {e} while the call under test returned"
        return "not-reproduced", f"both equivalent calls raise ({raised} / {type(e).__name__})"
    label, idx, part = p["label"], tuple(p["index"]), p["part"]
    if raised is not None or "__raises__" in ref:
        want = ref.get("__raises__")
        bad = (raised != want) and not (want == "*" and raised is not None)
        detail = f"code raised {raised}, oracle expects {want}"
        return ("reproduced" if bad else "not-reproduced"), detail
    if label == "__shape__":
        # the symbolic run returned arrays of another shape than the oracle: does the real code, too?
        ko = {k for k, _ in flatten(out) if not k[0].startswith("_")}
        kr = {k for k, _ in flatten(ref) if not k[0].startswith("_")}
        if ko != kr:
            return "reproduced", (f"code returns {len(ko)} elements, oracle {len(kr)}; only in code: {sorted(ko - kr)[:3]}, "
                                  f"only in oracle: {sorted(kr - ko)[:3]}")
        return "not-reproduced", "the real code returns the oracle's shape"
    if label == "__raises__":
        # the symbolic run ended in an exception (e.g. an exact division by zero where IEEE arithmetic gives
        # inf / nan) but the real code returns: compare everything it returns with the oracle
        fo, fr = dict(flatten(out)), dict(flatten(ref))
        for key in fr:
            if key not in fo:
                return "reproduced", f"label {key} missing from the code's output"
            from sx.harness import Claim
            if isinstance(fr[key], Claim):
                continue
            for (pn, x), (_, y) in zip(fparts(fo[key]), fparts(fr[key])):
                if not (np.isfinite(x) and np.isfinite(y)) or case.replay_compare(key[0], key[1], x, y):
                    return "reproduced", f"code={x!r} oracle={y!r} at {key[0]}{list(key[1])}"
        return "not-reproduced", "the real code returns and agrees with the oracle on every element"
    fo, fr = dict(flatten(out)), dict(flatten(ref))
    if per_path:
        # path-dependent oracle: any disagreement between the real code and the concrete oracle reproduces
        for key in fr:
            if key not in fo:
                return "reproduced", f"label {key} missing from the code's output"
            for (pn, x), (_, y) in zip(fparts(fo[key]), fparts(fr[key])):
                if case.replay_compare(key[0], key[1], x, y) or not (np.isfinite(x) and np.isfinite(y)):
                    return "reproduced", f"code={x!r} oracle={y!r} at {key[0]}{list(key[1])}"
        return "not-reproduced", "all labels agree"
    key = (label, idx)
    if key not in fo or key not in fr:
        return "error", f"label {key} not produced in replay"
    from sx.harness import Claim
    if isinstance(fr[key], Claim):
        x = float(fo[key])
        tol = 1e-12
        ok = {">": x > tol, ">=": x >= -tol, "<": x < -tol, "<=": x <= tol}[fr[key].op]
        return ("not-reproduced" if ok else "reproduced"), f"code={x!r} must be {fr[key].op} 0 at {label}{list(idx)}"
    a = dict(fparts(fo[key]) if len(fparts(fo[key])) == 2 or part == "" else [("re", float(fo[key])), ("im", 0.0)])
    b = dict(fparts(fr[key]) if len(fparts(fr[key])) == 2 or part == "" else [("re", float(fr[key])), ("im", 0.0)])
    if part not in a:
        a = {"re": complex(fo[key]).real, "im": complex(fo[key]).imag}
    if part not in b:
        b = {"re": complex(fr[key]).real, "im": complex(fr[key]).imag}
    x, y = a[part], b[part]
    bad = bool(case.replay_compare(label, idx, x, y)) or not (np.isfinite(x) and np.isfinite(y))
    return ("reproduced" if bad else "not-reproduced"), f"code={x!r} oracle={y!r} at {label}{list(idx)}{part and '.'+part}"


if __name__ == "__main__":
    try:
        status, detail = main(sys.argv[1])
    except Exception as e:  # noqa: BLE001
        import traceback

        status, detail = "error", traceback.format_exc()[-600:]
    print("REPLAY " + json.dumps({"status": status, "detail": detail}))
    sys.exit({"reproduced": 1, "not-reproduced": 0}.get(status, 3))
