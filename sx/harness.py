"""Case runner: symbolic execution of a case, solver obligations, replay, evidence.

A *case* (subclass of `Case`) fixes the discrete parameters.  It declares its continuous inputs
through a maker (symbolic variables in the check process, floats in the replay process), runs the
real gbasis code on them (`code`) and computes the oracle (`ref`); both return
``{label: scalar-or-array}``.  The runner compares element-wise:

  unsat of  side ∧ path ∧ (code ≠ ref)   → discharged for all inputs of this case
  sat                                      → witness → replayed on the unpatched library in a fresh
                                             process → VIOLATION only if it reproduces
  unknown / non-reproducing                → inconclusive (reported, never success or violation)
"""
import hashlib
import importlib
import inspect
import json
import os
import subprocess
import sys
import time
import traceback
from fractions import Fraction

import numpy as real_np

from . import core, shim
from .core import Sym, CSym, Rel, lift

VERIF = os.path.dirname(os.path.dirname(os.path.abspath(__file__)))
REPO = os.environ.get("GBASIS_REPO", "/repo")
PY = os.path.join(VERIF, ".venv", "bin", "python")


# --------------------------------------------------------------------------------------------
# input makers


class SymMaker:
    symbolic = True

    def __init__(self, ctx, concrete=None):
        self.ctx = ctx
        self.names = []
        self.concrete = concrete or {}  # name -> Fraction: Level-B concretisation

    def var(self, name, dom=None):
        self.names.append(name)
        if name in self.concrete:
            return Sym(self.ctx, Fraction(self.concrete[name]))
        return self.ctx.var(name, dom)

    def const(self, q):
        return Sym(self.ctx, Fraction(q))

    def array(self, a):
        return shim.sym_array(a)

    def symfloat(self, s):
        return core.SymFloat(s) if isinstance(s, Sym) and not s.is_const else float(s.k)


class FloatMaker:
    symbolic = False

    def __init__(self, values):
        self.values = values
        self.names = []

    def var(self, name, dom=None):
        self.names.append(name)
        return float(self.values[name])

    def const(self, q):
        return float(Fraction(q))

    def array(self, a):
        return real_np.array(a, dtype=float)

    def symfloat(self, s):
        return float(s)


def shell_spec(mk, tag, l, K, M, exps=None, coord=None, coeff_dom="!=0", zeros=()):
    """symbolic description of a generalized contraction shell; `zeros`: (primitive, column) pairs whose
    coefficient is exactly 0 (as in generally contracted correlation-consistent sets)"""
    A = coord if coord is not None else [mk.var(f"{tag}{x}") for x in "xyz"]
    if exps is None:
        e = [mk.var(f"{tag}e{k}", ">0") for k in range(K)]
    else:
        e = [mk.const(q) for q in exps]
    zeros = {tuple(z) for z in zeros}
    c = [[(mk.const(0) if (k, m) in zeros else mk.var(f"{tag}c{k}_{m}", coeff_dom)) for m in range(M)] for k in range(K)]
    return dict(l=l, A=A, exps=e, coeffs=c, tag=tag)


def make_shell(mk, sh, coord_type="cartesian", normalise=True, cls=None):
    """the real GeneralizedContractionShell built from a spec"""
    from gbasis.contractions import GeneralizedContractionShell

    cls = cls or GeneralizedContractionShell
    coord, exps, coeffs = mk.array(sh["A"]), mk.array(sh["exps"]), mk.array(sh["coeffs"])
    if normalise:
        if sh.get("icenter") is not None:
            return cls(sh["l"], coord, coeffs, exps, coord_type, icenter=sh["icenter"])
        return cls(sh["l"], coord, coeffs, exps, coord_type)
    s = cls.__new__(cls)
    s._angmom = sh["l"]
    s._coord = coord
    s._exps = exps
    s._coeffs = coeffs
    s.coord_type = coord_type
    s._icenter = sh.get("icenter")
    return s


# --------------------------------------------------------------------------------------------


class Case:
    """one discrete instance; subclasses define params (JSON-able), inputs, code, ref"""

    prop = "C00"
    rtol = 1e-8  # replay tolerance relative to max(|code|,|ref|,1)  unless overridden
    query_timeout = 60000
    concrete = None  # name -> Fraction for Level-B concretisation

    def __init__(self, **params):
        self.params = params

    @property
    def cid(self):
        return type(self).__name__ + "(" + ",".join(f"{k}={v}" for k, v in sorted(self.params.items())) + ")"

    def inputs(self, mk):
        raise NotImplementedError

    def code(self, I, mk):
        raise NotImplementedError

    def ref(self, I, ops, mk):
        raise NotImplementedError

    # optional: perturbed inputs for the canary (reference side only)
    canary_scale = None  # name of a variable that the reference sees doubled in the canary run

    def assumptions(self):
        return []

    def replay_compare(self, label, idx, a, b):
        """True if a (code) and b (ref) disagree beyond the property's tolerance"""
        scale = max(abs(a), abs(b), 1.0)
        return abs(a - b) > self.rtol * scale


def flatten(d):
    """{label: scalar/array/nested list} -> list of ((label, idx), value)"""
    out = []
    for label, v in d.items():
        if isinstance(v, dict):
            for k2, v2 in v.items():
                out.append(((label, tuple(k2) if isinstance(k2, tuple) else (k2,)), v2))
            continue
        a = real_np.asarray(v, dtype=object) if not isinstance(v, real_np.ndarray) else v
        a = a.view(real_np.ndarray) if isinstance(a, real_np.ndarray) else a
        if a.ndim == 0:
            out.append(((label, ()), a[()]))
        else:
            for idx in real_np.ndindex(*a.shape):
                out.append(((label, idx), a[idx]))
    return out


def parts(ctx, v):
    """split a possibly complex value into [(suffix, Sym)]"""
    if isinstance(v, CSym):
        return [("re", v.re), ("im", v.im)]
    if isinstance(v, (complex, real_np.complexfloating)):
        v = complex(v)
        return [("re", lift(ctx, v.real)), ("im", lift(ctx, v.imag))]
    return [("", lift(ctx, v))]


def fparts(v):
    if isinstance(v, (complex, real_np.complexfloating)):
        v = complex(v)
        return [("re", v.real), ("im", v.imag)]
    return [("", float(v))]


MAX_VIOL_PER_CASE = 2


class Claim:
    """oracle-side marker: the code's value must satisfy  value <op> 0  (instead of equalling a reference)"""

    def __init__(self, op):
        self.op = op

    def __repr__(self):
        return f"Claim({self.op} 0)"


POS, NONNEG, NEG, NONPOS = Claim(">"), Claim(">="), Claim("<"), Claim("<=")
_NEGATE = {">": "<=", ">=": "<", "<": ">=", "<=": ">"}


class CaseResult(dict):
    pass


def model_to_values(ctx, model, names):
    vals = {}
    for n in names:
        info = ctx.var_info.get(n)
        if info is None:
            continue
        if n in model:
            vals[n] = model[n]
        else:
            dom = info.get("dom")
            vals[n] = Fraction(1) if dom in (">0", "!=0") else Fraction(0)
            if isinstance(dom, tuple):
                vals[n] = (Fraction(dom[1]) + Fraction(dom[2])) / 2
    return vals


def run_case(case, tier="quick", seed=0, do_replay=True):
    """symbolic run of one case in this process; returns a JSON-able CaseResult"""
    t0 = time.time()
    res = CaseResult(
        cid=case.cid, cls=type(case).__name__, module=type(case).__module__, params=case.params, prop=case.prop,
        obligations=0, discharged=0, inconclusive=[], violations=[], known=[], harness_errors=[], paths=0,
        canary=None, vacuity=None, conformance=None, samples=[], solver_s=0.0, queries=0,
    )
    if getattr(case, "concrete_only", False):
        return _run_concrete(case, res, t0, do_replay)
    # a fresh copy of the library per case: module-level state (caches) of gbasis must not leak between cases
    for m in [m for m in sys.modules if m == "gbasis" or m.startswith("gbasis.")]:
        del sys.modules[m]
    ctx = core.Ctx(seed=seed)
    ctx.default_timeout = case.query_timeout
    ctx.unify_timeout = getattr(case, 'unify_timeout', 8000)
    shim.import_gbasis_all()
    try:
        shim.install(ctx)
        mk = SymMaker(ctx, concrete=case.concrete)
        I = case.inputs(mk)
        ops = _symops(ctx)
        for f in case.assumptions_sym(ctx, I) if hasattr(case, "assumptions_sym") else []:
            ctx.assume(f)
        t_exec = time.time()

        def body():
            out = case.code(I, mk)
            return out

        paths = ctx.explore(body, catch=(ValueError, TypeError, ZeroDivisionError, core.NonFinite))
        res["paths"] = len(paths)
        res["exec_s"] = round(time.time() - t_exec, 3)
        first_model_env = None

        def _on_probe(pth):
            # paths on which a probe point lies first: a violation there is found by the cheap numeric witness
            for k in (0, 1):
                try:
                    if all(f.holds(ctx, ctx.probe_env(k)) for f in pth[0]):
                        return 0
                except Exception:  # noqa: BLE001
                    pass
            return 1

        paths = sorted(paths, key=_on_probe)
        for pc, (kind, out) in paths:
            ctx.pc = list(pc)
            if kind == "raise":
                tb = traceback.format_exception(type(out), out, out.__traceback__)
                out = {"__raises__": type(out).__name__, "__trace__": "".join(tb[-3:])[-500:]}
            if hasattr(case, "path_obligations"):
                H = PathHelper(case, ctx, res, mk, do_replay)
                case.path_obligations(H, I, ops, mk, out)
                if res["vacuity"] is None:
                    r, _ = ctx.check(core.BoolConst(True), kind="vacuity", timeout=20000)
                    res["vacuity"] = "sat" if r != "unsat" else "unsat"
                continue
            try:
                refd = case.ref(I, ops, mk)
            except (ValueError, TypeError, IndexError, KeyError, ZeroDivisionError, AttributeError) as e:
                # code-vs-code oracles call the library too: an exception that comes out of gbasis itself on the
                # oracle side means one of two equivalent calls raises (decided by the replay on the real code)
                if not _raised_in_library(e):
                    raise
                tb = traceback.format_exception(type(e), e, e.__traceback__)
                refd = {"__raises__": "oracle-side:" + type(e).__name__, "__trace__": "".join(tb[-3:])[-400:]}
            if "__raises__" in out or "__raises__" in refd:
                # outcome-kind obligation: code raised <=> oracle says it must raise
                res["obligations"] += 1
                a, b = out.get("__raises__"), refd.get("__raises__")
                ok = (a == b) or (b == "*" and a is not None)
                if ok:
                    res["discharged"] += 1
                else:
                    _handle_sat(case, ctx, res, mk, ("__raises__", ()), "", None, f"code:{a} oracle:{b} {out.get('__trace__', '')} {refd.get('__trace__', '')}", do_replay)
                continue
            fo, fr = flatten(out), dict(flatten(refd))
            kc = {k for k, _ in fo if not k[0].startswith("_")}
            kr = {k for k in fr if not k[0].startswith("_")}
            if kc != kr:
                # the code returns arrays of another shape than the oracle: one outcome-kind obligation, decided by the replay
                res["obligations"] += 1
                note = f"code returns {len(kc)} elements, oracle {len(kr)}; only in code: {sorted(kc - kr)[:3]}, only in oracle: {sorted(kr - kc)[:3]}"
                model = None
                if ctx.pc:
                    try:  # a point on this path
                        st, model = ctx.check(core.BoolConst(True), kind="shape", timeout=case.query_timeout, want_model=True)
                        model = model if st == "sat" else None
                    except Exception:  # noqa: BLE001
                        model = None
                _handle_sat(case, ctx, res, mk, ("__shape__", ()), "", model, note, do_replay)
            for key, v in fo:
                if key not in fr:
                    continue
                w = fr[key]
                if isinstance(w, Claim):
                    res["obligations"] += 1
                    if _decide_sign(case, ctx, res, mk, key, lift(ctx, v), w, do_replay) == "unsat":
                        res["discharged"] += 1
                    continue
                pv, pw = parts(ctx, v), parts(ctx, w)
                if len(pv) != len(pw):
                    pv = pv if len(pv) == 2 else [("re", pv[0][1]), ("im", core.ZERO(ctx))]
                    pw = pw if len(pw) == 2 else [("re", pw[0][1]), ("im", core.ZERO(ctx))]
                for (suf, x), (_, y) in zip(pv, pw):
                    res["obligations"] += 1
                    if len(res["violations"]) + len(res["known"]) >= MAX_VIOL_PER_CASE:
                        res["skipped_after_violation"] = res.get("skipped_after_violation", 0) + 1
                        continue
                    if res["violations"] and do_replay:
                        # the case already failed (replayed violation): the remaining obligations only get the cheap
                        # numeric witness search; hard satisfiable queries would use up the case's budget for nothing
                        try:
                            wit = _numeric_witness(ctx, x, y)
                        except Exception:  # noqa: BLE001
                            wit = None
                        if wit is not None:
                            n_inc = len(res["inconclusive"])
                            if _handle_sat(case, ctx, res, mk, key, suf, wit, "numeric witness", do_replay) != "sat":
                                del res["inconclusive"][n_inc:]
                        else:
                            res["skipped_after_violation"] = res.get("skipped_after_violation", 0) + 1
                        continue
                    status = _decide_equal(case, ctx, res, mk, key, suf, x, y, do_replay)
                    if status == "unsat":
                        res["discharged"] += 1
            missing = [k for k in fr if k not in dict(fo) and not k[0].startswith("_")]
            if missing:
                res["harness_errors"].append(f"oracle labels not produced by the code: {missing[:3]}")
            # vacuity twin: the same constraints must admit  code - ref != 1
            if fo and res["vacuity"] is None:
                res["vacuity"] = _vacuity(case, ctx, fo, fr)
        ctx.pc = []
        # canary: reference evaluated on perturbed inputs must be refuted with a witness
        found = bool(res["violations"] or res["known"])
        if getattr(case, "run_canary", True) and paths and paths[0][1][0] == "ret" and not found:
            res["canary"] = _canary(case, ctx, I, mk, ops, paths)
        # conformance of the encoding with the real (unpatched) float code
        if not found:
            res["conformance"] = _conformance(case, ctx, mk, paths)
        # soundness obligations of the encoding
        res["den_bases"] = _check_den_bases(ctx, res)
        res["crosscheck"] = crosscheck_cvc5(ctx, res)
    except core.Unsupported as e:
        res["harness_errors"].append("unsupported: " + str(e))
    except Exception as e:  # noqa: BLE001
        res["harness_errors"].append("exception: " + "".join(traceback.format_exception_only(type(e), e)).strip()
                                     + " @ " + traceback.format_exc().splitlines()[-3].strip())
    finally:
        shim.uninstall()
    res.pop("_xc", None)
    res["solver_s"] = round(ctx.tq, 3)
    res["queries"] = ctx.nq
    res["unknown_queries"] = ctx.n_unknown
    res["fallback_queries"] = getattr(ctx, "n_fallback", 0)
    res["fallback_decided"] = getattr(ctx, "n_fallback_decided", 0)
    res["atoms"] = {f"{k[0]}": sum(len(v) for kk, v in ctx.atoms.items() if kk[0] == k[0]) for k in ctx.atoms}
    res["nodes"] = ctx.nnodes
    res["inexact_float_constants"] = ctx.inexact_floats
    res["wall_s"] = round(time.time() - t0, 3)
    res["seterr_log"] = [list(map(str, e)) for e in shim.State.seterr_log][:6]
    return res


def _run_concrete(case, res, t0, do_replay):
    """ground case: the real code is executed on concrete inputs (no symbols); compared with the float oracle"""
    from refs.gauss import FloatOps

    for m in [m for m in sys.modules if m == "gbasis" or m.startswith("gbasis.")]:
        del sys.modules[m]
    shim.import_gbasis_all()
    shim.uninstall()
    mk = FloatMaker({})
    try:
        I = case.inputs(mk)
        raised, out = None, None
        try:
            out = case.code(I, mk)
        except (ValueError, TypeError, ZeroDivisionError, KeyError, IndexError, AttributeError, UnboundLocalError) as e:
            raised = type(e).__name__
        ref = case.ref(I, FloatOps, mk)
        want = ref.get("__raises__") if isinstance(ref, dict) else None
        bad = []
        if raised is not None or want is not None:
            res["obligations"] += 1
            if (raised == want) or (want == "*" and raised is not None):
                res["discharged"] += 1
            else:
                bad.append((("__raises__", ()), f"code raised {raised}, oracle expects {want}"))
        else:
            fo, fr = dict(flatten(out)), dict(flatten(ref))
            for key, w in fr.items():
                res["obligations"] += 1
                if key not in fo:
                    bad.append((key, "missing from the code's output"))
                    continue
                ok = True
                for (pn, x), (_, y) in zip(fparts(fo[key]), fparts(w)):
                    if case.replay_compare(key[0], key[1], x, y) or not (real_np.isfinite(x) and real_np.isfinite(y)):
                        ok = False
                        bad.append((key, f"code={x!r} oracle={y!r}"))
                        break
                if ok:
                    res["discharged"] += 1
        for key, note in bad[:MAX_VIOL_PER_CASE]:
            path, rep = write_and_replay(case, {}, key, "")
            rec = {"key": _k(key, ""), "note": note, "replay": path, "detail": rep.get("detail")}
            if rep.get("status") == "reproduced":
                kf = match_known(case.prop, case.cid, _k(key, ""))
                if kf:
                    rec["known"] = kf["id"]
                    res["known"].append(rec)
                else:
                    res["violations"].append(rec)
            else:
                res["inconclusive"].append(dict(rec, why=f"concrete mismatch not reproduced in a fresh process: {rep}"))
        res["vacuity"] = "none"
        res["queries"] = 0
    except Exception as e:  # noqa: BLE001
        res["harness_errors"].append("exception: " + "".join(traceback.format_exception_only(type(e), e)).strip())
    res["wall_s"] = round(time.time() - t0, 3)
    res["concrete_only"] = True
    return res


def _symops(ctx):
    sys.path.insert(0, VERIF) if VERIF not in sys.path else None
    from refs.gauss import SymOps

    return SymOps(ctx)


def _decide_equal(case, ctx, res, mk, key, suf, x, y, do_replay):
    try:
        x, y = core.strip_common_L(x, y)
        node = core.diff_numerator(ctx, x, y)
    except core.NonFinite as e:
        res["inconclusive"].append({"key": _k(key, suf), "why": f"non-finite: {e}"})
        return "unknown"
    if node.op == "c":
        status = "unsat" if node.val == 0 else "sat"
        model = {} if status == "sat" else None
    else:
        # cheap witness search (never counts as "holds"): both sides at two probe points
        wit = _numeric_witness(ctx, x, y)
        if wit is not None and do_replay:
            n_inc = len(res["inconclusive"])
            r = _handle_sat(case, ctx, res, mk, key, suf, wit, "numeric witness", do_replay)
            if r == "sat":
                return r
            # the floating-point hint did not reproduce (cancellation noise): forget it and ask the solver
            del res["inconclusive"][n_inc:]
        goal = Rel("!=", node)
        if len(res["samples"]) < 2:
            smt = ctx.smt2_of(goal)
            res["samples"].append({"case": case.cid, "obligation": _k(key, suf), "smt2_chars": len(smt),
                                   "smt2_head": smt[:600]})
        status, model = ctx.check(goal, timeout=case.query_timeout, kind="obligation", want_model=True)
        if status == "unsat":
            _remember_for_crosscheck(ctx, res, goal, key, suf)
    if status == "unsat":
        return "unsat"
    if status == "sat":
        return _handle_sat(case, ctx, res, mk, key, suf, model, None, do_replay, goal=(goal if node.op != "c" else None))
    res["inconclusive"].append({"key": _k(key, suf), "why": "solver unknown/timeout"})
    return "unknown"


class PathHelper:
    """obligation API for cases whose oracle depends on the path taken by the code"""

    def __init__(self, case, ctx, res, mk, do_replay):
        self.case, self.ctx, self.res, self.mk, self.do_replay = case, ctx, res, mk, do_replay

    def _full(self):
        return len(self.res["violations"]) + len(self.res["known"]) >= MAX_VIOL_PER_CASE

    def equal(self, key, x, y):
        self.res["obligations"] += 1
        if self._full():
            return
        ctx = self.ctx
        for (suf, a), (_, b) in zip(parts(ctx, x), parts(ctx, y)):
            if _decide_equal(self.case, ctx, self.res, self.mk, key, suf, a, b, self.do_replay) != "unsat":
                return
        self.res["discharged"] += 1

    def unsat(self, key, formula, note=""):
        """formula must be unsatisfiable under the constraints and the current path condition"""
        self.res["obligations"] += 1
        if self._full():
            return
        st, model = self.ctx.check(formula, timeout=self.case.query_timeout, kind="obligation", want_model=True)
        if st == "unsat":
            self.res["discharged"] += 1
        elif st == "sat":
            _handle_sat(self.case, self.ctx, self.res, self.mk, key, "", model, note, self.do_replay, goal=formula)
        else:
            self.res["inconclusive"].append({"key": _k(key, ""), "why": "solver unknown/timeout"})

    def fail(self, key, note):
        self.res["obligations"] += 1
        if self._full():
            return
        st, model = self.ctx.check(core.BoolConst(True), timeout=self.case.query_timeout, kind="obligation", want_model=True)
        _handle_sat(self.case, self.ctx, self.res, self.mk, key, "", model or {}, note, self.do_replay)

    def ok(self, key):
        self.res["obligations"] += 1
        self.res["discharged"] += 1

    def formula(self, sym, op):
        """Formula for  sym op 0  (cross-multiplied with proven denominator signs)"""
        return core.sign_formula(lift(self.ctx, sym), op)


def _decide_sign(case, ctx, res, mk, key, x, claim, do_replay):
    """obligation  x <claim.op> 0 : unsat of the negation"""
    x = core.materialise(x)
    if x.is_const:
        ok = {">": x.k > 0, ">=": x.k >= 0, "<": x.k < 0, "<=": x.k <= 0}[claim.op]
        if ok:
            return "unsat"
        return _handle_sat(case, ctx, res, mk, key, "", {}, f"constant {x.k} violates {claim}", do_replay)
    neg = core.sign_formula(x, _NEGATE[claim.op])
    status, model = ctx.check(neg, timeout=case.query_timeout, kind="obligation", want_model=True)
    if status == "unsat":
        return "unsat"
    if status == "sat":
        return _handle_sat(case, ctx, res, mk, key, "", model, f"sign claim {claim}", do_replay)
    res["inconclusive"].append({"key": _k(key, ""), "why": "solver unknown/timeout (sign claim)"})
    return "unknown"


def _remember_for_crosscheck(ctx, res, goal, key, suf):
    """reservoir of one discharged obligation per case (chosen by VERIF_SEED) for the second solver"""
    st = res.setdefault("_xc", {"n": 0, "smt": None, "key": None})
    st["n"] += 1
    if ctx.rng.randrange(st["n"]) == 0:
        st["goal"] = goal
        st["key"] = _k(key, suf)
        st["pc"] = list(ctx.pc)


def crosscheck_cvc5(ctx, res, limit_s=4):
    """re-decide one discharged obligation of the case with cvc5 (SMT-LIB text written from the same DAG);
    a disagreement makes the case inconclusive, no answer within the limit is only recorded"""
    st = res.pop("_xc", None)
    if not st or "goal" not in st:
        return None
    import shutil
    import tempfile

    exe = shutil.which("cvc5")
    if not exe:
        return {"status": "cvc5 not found"}
    old_pc = ctx.pc
    ctx.pc = st["pc"]
    try:
        smt = ctx.smt2_of(st["goal"])
    finally:
        ctx.pc = old_pc
    with tempfile.NamedTemporaryFile("w", suffix=".smt2", delete=False) as f:
        f.write(smt)
        name = f.name
    try:
        p = subprocess.run([exe, f"--tlimit={limit_s * 1000}", name], capture_output=True, text=True, timeout=limit_s + 5)
        ans = p.stdout.strip().splitlines()[0] if p.stdout.strip() else "no answer"
        if "(error" in p.stdout or "(error" in p.stderr:
            ans = "error"
    except subprocess.TimeoutExpired:
        ans = "no answer"
    finally:
        os.unlink(name)
    out = {"obligation": st["key"], "z3": "unsat", "cvc5": ans}
    if ans == "sat":
        res["inconclusive"].append({"key": st["key"], "why": "z3 says unsat but cvc5 says sat on the same SMT-LIB text"})
        res["discharged"] = max(0, res["discharged"] - 1)
    return out


def _path_envs(ctx):
    """numeric environments for the hint: the two global probe points, and - when they do not lie on the current
    path - a point on the path obtained from the solver for the path condition alone (inside a box of growing
    size, so that floating point can follow)"""
    envs = []
    for k in (0, 1):
        env = ctx.probe_env(k)
        try:
            if all(f.holds(ctx, env) for f in ctx.pc):
                envs.append(env)
        except Exception:  # noqa: BLE001
            pass
    if envs or not ctx.pc:
        return envs
    key = tuple(id(f) for f in ctx.pc)
    cache = ctx.__dict__.setdefault("_path_env_cache", {})
    if key not in cache:
        found = None
        for size in (2, 6, 30):
            try:
                box = _box_constraints(ctx, core.BoolConst(True), size=size)
                st, model = ctx.check(box or [core.BoolConst(True)], kind="path-point", timeout=10000, want_model=True)
            except Exception:  # noqa: BLE001
                break
            if st == "sat" and model is not None:
                found = core.Env(ctx, base={k: float(v) for k, v in model.items() if ctx.var_info.get(k, {}).get("kind") == "input"}, probe=55)
                break
        cache[key] = found
    if cache[key] is not None:
        envs.append(cache[key])
    return envs


def _numeric_witness(ctx, x, y, floor=1e-7):
    """a probe point at which x and y differ numerically; `floor` is the absolute part of the threshold: 1e-7 for hints
    that must be reproducible by a float replay, far lower for the canary, which only asks whether two symbolic
    expressions are different functions (outputs such as densities in a Gaussian tail are small everywhere)"""
    for env in _path_envs(ctx):
        try:
            a, b = ctx.numeric(x, env), ctx.numeric(y, env)
        except (OverflowError, ZeroDivisionError, ValueError):
            continue
        if a != a or b != b:
            continue
        if abs(a - b) > 1e-6 * (abs(a) + abs(b)) + floor:
            return {n: Fraction(v).limit_denominator(10**6) for n, v in env.items()
                    if ctx.var_info.get(n, {}).get("kind") == "input"}
    return None


def _k(key, suf):
    return f"{key[0]}{list(key[1])}{('.' + suf) if suf else ''}"


def _box_constraints(ctx, goal, size=30):
    """moderate magnitudes for every input of the query: witnesses with astronomically large or tiny values
    cannot be reproduced in floating point (underflow), so a bounded model is asked for first"""
    goals = goal if isinstance(goal, (list, tuple)) else [goal]
    vs = set()
    for g in list(goals) + list(ctx.pc):
        vs |= set(g.varset(ctx))
    todo, seen = list(vs), set()
    while todo:  # inputs hidden behind atom definitions
        v = todo.pop()
        if v in seen:
            continue
        seen.add(v)
        d = ctx.atom_defs.get(v)
        if d:
            arg = d[1]
            for node in ([arg.n] if arg.n is not None else []) + [ctx.den_list[b] for b, _ in arg.d]:
                todo.extend(ctx.varset(node))
    out = []
    for v in sorted(seen):
        info = ctx.var_info.get(v, {})
        if info.get("kind") != "input":
            continue
        n = ctx.var_node(v)
        out.append(Rel("<=", ctx.add(n, ctx.const(Fraction(-size)))))
        if info.get("dom") in (">0", ">=0"):
            out.append(Rel(">=", ctx.add(n, ctx.const(Fraction(-1, 20)))))
        else:
            out.append(Rel(">=", ctx.add(n, ctx.const(Fraction(size)))))
    return out


def _repair_constraints(ctx, goal, model):
    """the solver's model gives transcendental atoms (log, exp, Boys) arbitrary values within their axioms.
    Pin the inputs those atoms depend on to the model's values and the atoms to their true values (a narrow
    rational interval), so that the next model is consistent with the real functions."""
    goals = goal if isinstance(goal, (list, tuple)) else [goal]
    vs = set()
    for g in list(goals) + list(ctx.pc):
        vs |= set(g.varset(ctx))
    extra = []
    env = core.Env(ctx, base={k: float(v) for k, v in model.items() if ctx.var_info.get(k, {}).get("kind") == "input"}, probe=91)
    done_inputs = set()
    for name in sorted(vs):
        d = ctx.atom_defs.get(name)
        if not d or d[0] not in ("log", "exp", "boys"):
            continue
        arg = d[1]
        argvars = set()
        for node in ([arg.n] if arg.n is not None else []) + [ctx.den_list[b] for b, _ in arg.d]:
            argvars |= set(ctx.varset(node))
        if any(ctx.var_info.get(v, {}).get("kind") == "atom" for v in argvars):
            continue  # nested atoms: leave alone
        for v in argvars:
            if v in done_inputs or ctx.var_info.get(v, {}).get("kind") != "input":
                continue
            done_inputs.add(v)
            val = Fraction(model[v]) if v in model else Fraction(env[v]).limit_denominator(10**6)
            extra.append(Rel("==", ctx.add(ctx.var_node(v), ctx.const(-val))))
            env[v] = float(val)
        try:
            true = ctx._numeric_atom(name, env)
        except Exception:  # noqa: BLE001
            continue
        if true != true or abs(true) == float("inf"):
            continue
        lo = Fraction(true).limit_denominator(10**12) - Fraction(1, 10**9)
        hi = lo + Fraction(2, 10**9)
        n = ctx.var_node(name)
        extra.append(Rel(">=", ctx.add(n, ctx.const(-lo))))
        extra.append(Rel("<=", ctx.add(n, ctx.const(-hi))))
    return extra


def _handle_sat(case, ctx, res, mk, key, suf, model, note, do_replay, goal=None):
    """sat: replay on the real code; confirmed -> violation (or known finding)"""
    values = model_to_values(ctx, model or {}, mk.names)
    rec = {"key": _k(key, suf), "note": note}
    if not do_replay:
        rec["replay"] = "skipped"
        res["violations"].append(rec)
        return "sat"
    tried = []
    cands = [values]
    # neighbouring rational points (spurious atom values in the model do not matter: inputs only)
    for j in range(3):
        env = ctx.probe_env(10 + j)
        cands.append({n: Fraction(env[n]).limit_denominator(1000) for n in values})
    repaired = 0
    while cands:
        vals = cands.pop(0)
        path, rep = write_and_replay(case, vals, key, suf)
        tried.append(rep.get("status"))
        if rep.get("status") != "reproduced" and goal is not None and model and repaired < 4 and not cands:
            # witness repair: make the transcendental atoms consistent with the real functions and ask again
            repaired += 1
            try:
                extra = _repair_constraints(ctx, goal, model)
                # growing boxes 2, 6, 30 with the constant-argument atoms (e.g. the log of a literal) pinned to their
                # true values; last attempt: all transcendental atoms pinned at the inputs of the last model
                box = _box_constraints(ctx, goal, size={1: 2, 2: 6, 3: 30, 4: 30}[repaired])
                if extra or box:
                    goals = (list(goal) if isinstance(goal, (list, tuple)) else [goal]) + box
                    if repaired == 4:
                        goals += extra
                    else:
                        goals += [f for f in extra if not f.varset(ctx) - {v for v in f.varset(ctx) if ctx.var_info.get(v, {}).get("kind") == "atom"}]
                    st2, model2 = ctx.check(goals, timeout=case.query_timeout, kind="repair", want_model=True)
                    if st2 == "sat" and model2:
                        model = model2
                        cands.append(model_to_values(ctx, model2, mk.names))
            except Exception:  # noqa: BLE001
                pass
        if rep.get("status") == "reproduced":
            rec.update(replay=path, detail=rep.get("detail"))
            kf = match_known(case.prop, case.cid, _k(key, suf))
            if kf:
                rec["known"] = kf["id"]
                res["known"].append(rec)
            else:
                res["violations"].append(rec)
            return "sat"
        if rep.get("status") == "error":
            rec["replay_error"] = rep.get("detail")
    rec["why"] = f"solver sat but not reproduced on the real code ({tried})"
    res["inconclusive"].append(rec)
    return "unknown"


def write_and_replay(case, values, key, suf):
    d = os.path.join(VERIF, "replays", case.prop)
    os.makedirs(d, exist_ok=True)
    payload = {
        "property": case.prop, "module": type(case).__module__, "cls": type(case).__name__, "params": case.params,
        "values": {k: [v.numerator, v.denominator] if isinstance(v, Fraction) else [float(v).hex(), None]
                   for k, v in values.items()},
        "label": key[0], "index": list(key[1]), "part": suf, "cid": case.cid,
    }
    h = hashlib.sha1(json.dumps(payload, sort_keys=True).encode()).hexdigest()[:12]
    path = os.path.join(d, h + ".json")
    with open(path, "w") as f:
        json.dump(payload, f, indent=1)
    try:
        p = subprocess.run([PY, "-W", "ignore", "-m", "sx.replay", path], cwd=VERIF, capture_output=True, text=True,
                           timeout=600, env=_env())
        line = [l for l in p.stdout.splitlines() if l.startswith("REPLAY ")]
        rep = json.loads(line[-1][7:]) if line else {"status": "error", "detail": (p.stderr or p.stdout)[-400:]}
    except Exception as e:  # noqa: BLE001
        rep = {"status": "error", "detail": str(e)}
    return path, rep


def _env():
    e = dict(os.environ)
    e["PYTHONPATH"] = VERIF + os.pathsep + REPO
    return e


def _vacuity(case, ctx, fo, fr):
    """reachability twin: the constraints under which the obligations were discharged must be
    satisfiable.  Without a path condition this is shown by a concrete point (probe environment, atoms
    computed from their definitions) at which every domain constraint holds; with a path condition the
    solver is asked."""
    vs = set()
    for key, v in fo[:50]:
        try:
            for _, x in parts(ctx, v):
                if x.n is not None:
                    vs |= ctx.varset(x.n)
        except Exception:  # noqa: BLE001
            continue
    side = ctx.relevant_side(vs, list(ctx.pc))
    for k in (0, 1, 2):
        env = ctx.probe_env(k)
        try:
            if all(f.holds(ctx, env) for f in side if not (isinstance(f, Rel) and f.op == "==")):
                return "sat"
        except Exception:  # noqa: BLE001
            continue
    r, _ = ctx.check(core.BoolConst(True), kind="vacuity", timeout=20000)
    return r


def _canary(case, ctx, I, mk, ops, paths):
    """sensitivity twin: a deliberately wrong oracle must be told apart from the code by a concrete
    witness.  (a) the oracle sees one input doubled; (b) the oracle's elements rotated by one position.
    The witness is a point satisfying the constraints at which code and wrong oracle differ."""
    name = case.canary_scale
    rets = [pth for pth in paths if pth[1][0] == "ret"]
    verdict = "survived"
    for pth in rets[:6]:
        verdict = _canary_path(case, ctx, I, mk, ops, pth, name)
        if verdict != "survived":
            break
    return verdict


def _canary_path(case, ctx, I, mk, ops, pth, name):
    try:
        pc, (kind, out) = pth
        ctx.pc = list(pc)
        fo = flatten(out)
        if all(all(x.is_const for _, x in parts(ctx, v)) for _, v in fo[:64]):
            return "trivial"
        if pc:
            ok_probe = False
            for k in (0, 1):
                try:
                    ok_probe = ok_probe or all(f.holds(ctx, ctx.probe_env(k)) for f in pc)
                except Exception:  # noqa: BLE001
                    pass
            if not ok_probe:
                return "noprobe"  # no probe point lies on this path: the numeric twin cannot be evaluated here  # the code's output does not depend on the inputs (e.g. zero by parity)
        strategies = []
        if name in mk.names:
            class CMaker(SymMaker):
                def var(s, n, dom=None):
                    v = SymMaker.var(s, n, dom)
                    return v * 2 if n == name else v

            mk2 = CMaker(ctx, concrete=case.concrete)
            I2 = case.inputs(mk2)
            strategies.append(("scaled-input", dict(flatten(case.ref(I2, ops, mk2)))))
        fr0 = flatten(case.ref(I, ops, mk))
        if len(fr0) > 1:
            keys = [k for k, _ in fr0]
            vals = [v for _, v in fr0]
            strategies.append(("rotated-oracle", dict(zip(keys, vals[1:] + vals[:1]))))
        for sname, fr in strategies:
            for key, v in fo[:64]:
                if key not in fr:
                    continue
                if isinstance(fr[key], Claim):
                    continue
                for (suf, x), (_, y) in zip(parts(ctx, v), parts(ctx, fr[key])):
                    if _numeric_witness(ctx, x, y, floor=1e-30) is not None:
                        return "killed"
        # nothing distinguishes the wrong oracles: acceptable only if the code's outputs are all the same
        # number at the probe points (e.g. identically zero by parity) - then the case is trivial, not vacuous
        try:
            vals = []
            for k in (0, 1):
                env = ctx.probe_env(k)
                for key, v in fo[:64]:
                    for _, x in parts(ctx, v):
                        vals.append(ctx.numeric(x, env))
            if vals and max(vals) - min(vals) < 1e-12:
                return "trivial"
        except Exception:  # noqa: BLE001
            pass
        return "survived"
    finally:
        ctx.pc = []


def _conformance(case, ctx, mk, paths):
    """encoding vs the real float code at a probe point: max relative deviation"""
    if not getattr(case, "conformance", True):
        return {"skipped": True}
    env = ctx.probe_env(0)
    vals = {n: env[n] for n in mk.names if n in ctx.var_info}
    # keep only paths whose condition holds at the probe point
    chosen = None
    for pc, (kind, out) in paths:
        try:
            if all(f.holds(ctx, env) for f in pc):
                chosen = (kind, out)
                break
        except Exception:  # noqa: BLE001
            continue
    if chosen is None:
        return {"skipped": "no path contains the probe point"}
    kind, out = chosen
    if kind == "raise":
        return {"skipped": "probe path raises"}
    shim.uninstall()
    try:
        fm = FloatMaker({**{n: float(Fraction(v)) for n, v in (case.concrete or {}).items()}, **vals})
        I = case.inputs(fm)
        try:
            real_out = case.code(I, fm)
        except Exception as e:  # noqa: BLE001
            return {"error": f"real code raised {type(e).__name__}: {e}"}
    finally:
        shim.install(ctx)
    worst = 0.0
    n = 0
    fo = dict(flatten(real_out))
    for key, v in flatten(out):
        if key not in fo:
            return {"error": f"label {key} missing in float run"}
        try:
            a = ctx.numeric(v, env)
        except Exception as e:  # noqa: BLE001
            return {"error": f"numeric eval failed: {e}"}
        b = complex(fo[key]) if isinstance(fo[key], (complex, real_np.complexfloating)) else float(fo[key])
        dev = abs(a - b) / max(abs(a), abs(b), 1e-3)
        worst = max(worst, dev)
        n += 1
    tol = getattr(case, "conformance_tol", 1e-7)
    return {"points": 1, "elements": n, "max_rel_dev": worst, "tol": tol, "ok": worst < tol}


def _check_den_bases(ctx, res, limit=40):
    """every denominator base must be provably non-zero under the input domain"""
    proved, assumed = 0, []
    for node in ctx.den_list[:limit]:
        r, _ = ctx.check(Rel("==", node), kind="den", timeout=5000, use_pc=False)
        if r == "unsat":
            proved += 1
        else:
            assumed.append(repr(node)[:80])
    return {"bases": len(ctx.den_list), "proved_nonzero": proved, "assumed_nonzero": assumed[:5],
            "n_assumed": len(assumed)}


# --------------------------------------------------------------------------------------------
# known findings


_KNOWN = None


def known_findings():
    global _KNOWN
    if _KNOWN is None:
        p = os.path.join(VERIF, "known_findings.json")
        _KNOWN = json.load(open(p)) if os.path.exists(p) else {"findings": []}
    return _KNOWN


def match_known(prop, cid, key):
    import fnmatch

    for f in known_findings().get("findings", []):
        if f.get("status") != "known" or f.get("property") != prop:
            continue
        for pat in f.get("match", []):
            if fnmatch.fnmatch(f"{cid}:{key}", pat):
                return f
    return None


# --------------------------------------------------------------------------------------------
# driver


def _raised_in_library(e):
    tb = e.__traceback__
    last = None
    while tb is not None:
        last = tb
        tb = tb.tb_next
    fn = last.tb_frame.f_code.co_filename if last is not None else ""
    return os.sep + "gbasis" + os.sep in fn and (fn.startswith(REPO) or "/gbasis/" in fn)


class CaseTimeout(BaseException):
    pass


def _alarm(signum, frame):
    raise CaseTimeout()


def _worker(args):
    import signal

    modname, clsname, params, tier, seed = args
    sys.setrecursionlimit(20000)
    budget = int(os.environ.get("VERIF_CASE_BUDGET", "600" if tier == "quick" else "3600"))
    try:
        signal.signal(signal.SIGALRM, _alarm)
        signal.alarm(budget)
    except (ValueError, AttributeError):
        pass
    mod = importlib.import_module(modname)
    case = getattr(mod, clsname)(**params)
    try:
        t0 = time.time()
        r = dict(run_case(case, tier=tier, seed=seed))
        if os.environ.get("VERIF_VERBOSE"):
            print(f"[done {time.time() - t0:7.1f}s] {case.cid} obl={r.get('obligations')} ok={r.get('discharged')}", file=sys.stderr, flush=True)
        try:
            signal.alarm(0)
        except (ValueError, AttributeError):
            pass
        return r
    except CaseTimeout:
        shim.uninstall()
        return {"cid": case.cid, "prop": case.prop, "obligations": 1, "discharged": 0, "violations": [], "known": [], "samples": [],
                "harness_errors": [], "solver_s": 0, "queries": 0, "wall_s": budget,
                "inconclusive": [{"key": "*", "why": f"case exceeded its wall-time budget of {budget} s (no verdict)"}]}
    except BaseException as e:  # noqa: BLE001
        return {"cid": case.cid, "prop": case.prop, "harness_errors": [f"worker crashed: {type(e).__name__}: {e}"],
                "obligations": 0, "discharged": 0, "inconclusive": [], "violations": [], "known": [], "samples": [],
                "solver_s": 0, "queries": 0, "wall_s": 0}


def source_hashes(funcs):
    out = {}
    for f in funcs:
        try:
            modname, _, attr = f.partition(":")
            obj = importlib.import_module(modname)
            for part in attr.split("."):
                obj = getattr(obj, part)
            obj = getattr(obj, "__func__", obj)
            src = inspect.getsource(obj)
            out[f] = hashlib.sha1(src.encode()).hexdigest()[:12]
        except Exception as e:  # noqa: BLE001
            out[f] = f"unavailable: {type(e).__name__}"
    return out


def run_property(prop, cases, tier, seed, encoded, bounds, assumptions, extra=None, procs=None, title=""):
    """run all cases (in parallel worker processes), write evidence, print verdict lines, return exit code"""
    import multiprocessing as mp

    t0 = time.time()
    procs = procs or int(os.environ.get("VERIF_PROCS", "16"))
    args = [(type(c).__module__, type(c).__name__, c.params, tier, seed) for c in cases]
    results = _run_isolated(args, procs, tier)
    return finish_property(prop, results, tier, seed, encoded, bounds, assumptions, t0, extra=extra, title=title)


def _run_isolated(args, procs, tier):
    """cases run in worker interpreters (sx.worker), `procs` at a time, a few cases per interpreter; a case
    that overruns its wall budget gets its interpreter killed (z3 does not always honour its own time-out)
    and is reported as undecided; the rest of its chunk is restarted in a new interpreter"""
    import queue
    import threading

    budget = int(os.environ.get("VERIF_CASE_BUDGET", "600" if tier == "quick" else "3600"))
    chunk_size = int(os.environ.get("VERIF_CHUNK", "4" if tier == "quick" else "1"))
    todo = queue.Queue()
    order = sorted(range(len(args)), key=lambda i: 0 if args[i][2].get("heavy") else 1)  # heavy cases first, alone
    for i in order:
        todo.put((i, list(args[i])))
    results = [None] * len(args)

    def cid_of(a):
        return a[1] + "(" + ",".join(f"{k}={v}" for k, v in sorted(a[2].items())) + ")"

    def undecided(a, why, herr=False):
        return {"cid": cid_of(a), "prop": "", "obligations": 1, "discharged": 0, "violations": [], "known": [], "samples": [],
                "harness_errors": [why] if herr else [], "solver_s": 0, "queries": 0, "wall_s": 0,
                "inconclusive": [] if herr else [{"key": "*", "why": why}]}

    def slot():
        while True:
            chunk = []
            try:
                while len(chunk) < chunk_size:
                    chunk.append(todo.get_nowait())
                    if chunk[-1][1][2].get("heavy"):
                        break
            except queue.Empty:
                pass
            if not chunk:
                return
            while chunk:
                p = subprocess.Popen([PY, "-W", "ignore", "-m", "sx.worker"], stdin=subprocess.PIPE, stdout=subprocess.PIPE,
                                     stderr=subprocess.PIPE if not os.environ.get("VERIF_VERBOSE") else None, text=True,
                                     cwd=VERIF, env=_env())
                lines = queue.Queue()

                def reader(pp=p, qq=lines):
                    for line in pp.stdout:
                        qq.put(line)
                    qq.put(None)

                threading.Thread(target=reader, daemon=True).start()
                try:
                    p.stdin.write(json.dumps({"cases": chunk}))
                    p.stdin.close()
                except OSError:
                    pass
                current = None
                alive = True
                while chunk and alive:
                    try:
                        line = lines.get(timeout=budget + 60)
                    except queue.Empty:
                        p.kill()
                        victim = chunk.pop(0)
                        results[victim[0]] = undecided(victim[1], f"case killed after exceeding its wall-time budget of {budget} s (no verdict)")
                        alive = False
                        break
                    if line is None:
                        alive = False
                        break
                    if line.startswith("BEGIN "):
                        current = int(line.split()[1])
                    elif line.startswith("RESULT "):
                        _, idx, payload = line.split(" ", 2)
                        results[int(idx)] = json.loads(payload)
                        chunk[:] = [c for c in chunk if c[0] != int(idx)]
                if not alive and chunk and p.poll() is not None and current is not None and any(c[0] == current for c in chunk):
                    # the interpreter died while working on `current`
                    err = ""
                    try:
                        err = (p.stderr.read() or "")[-300:] if p.stderr else ""
                    except Exception:  # noqa: BLE001
                        pass
                    victim = [c for c in chunk if c[0] == current][0]
                    chunk.remove(victim)
                    results[victim[0]] = undecided(victim[1], f"worker died (exit {p.returncode}): {err}", herr=True)
                try:
                    p.kill()
                except OSError:
                    pass
                p.wait()

    threads = [threading.Thread(target=slot) for _ in range(max(1, min(procs, len(args))))]
    for t in threads:
        t.start()
    for t in threads:
        t.join()
    return [r if r is not None else undecided(list(args[i]), "no result returned", herr=True) for i, r in enumerate(results)]


def finish_property(prop, results, tier, seed, encoded, bounds, assumptions, t0, extra=None, title=""):
    results.sort(key=lambda r: r.get("cid", ""))
    obligations = sum(r.get("obligations", 0) for r in results)
    discharged = sum(r.get("discharged", 0) for r in results)
    inconclusive = [dict(i, case=r["cid"]) for r in results for i in r.get("inconclusive", [])]
    violations = [dict(v, case=r["cid"]) for r in results for v in r.get("violations", [])]
    known = [dict(v, case=r["cid"]) for r in results for v in r.get("known", [])]
    herrs = [f"{r['cid']}: {e}" for r in results for e in r.get("harness_errors", [])]
    # canary / vacuity / conformance are harness checks
    for r in results:
        if r.get("canary") == "survived":
            herrs.append(f"{r['cid']}: canary survived (wrong oracle not refuted)")
        if r.get("vacuity") not in (None, "sat", "none"):
            herrs.append(f"{r['cid']}: vacuity twin returned {r.get('vacuity')}")
        conf = r.get("conformance") or {}
        if conf.get("error") or conf.get("ok") is False:
            herrs.append(f"{r['cid']}: encoding does not conform to the real code: {conf}")
    extra = extra or {}
    for e in extra.get("harness_errors", []):
        herrs.append(e)
    violations += extra.get("violations", [])
    known += extra.get("known", [])
    obligations += extra.get("obligations", 0)
    discharged += extra.get("discharged", 0)
    inconclusive += extra.get("inconclusive", [])
    samples = [s for r in results for s in r.get("samples", [])][:4] + extra.get("samples", [])
    if not samples:
        samples = [{"case": r["cid"], "obligations": r.get("obligations")} for r in results[:3]]
    case_rows = [{k: r.get(k) for k in ("cid", "obligations", "discharged", "paths", "canary", "vacuity", "solver_s",
                                         "queries", "wall_s", "exec_s", "atoms", "nodes", "den_bases")}
                 | {"conformance": (r.get("conformance") or {}).get("max_rel_dev")} for r in results]
    nontrivial = sum(1 for r in results if r.get("obligations", 0) > 0 and r.get("queries", 0) > 0)
    ev = {
        "property_id": prop,
        "tier": tier,
        "seed": int(seed),
        "level": "other",
        "coverage": {
            "explanation": (
                f"{title} Bounded symbolic execution of the real gbasis functions (numpy object arrays of symbolic "
                "scalars, source read from /repo at run time) with every obligation decided by z3 (QF_NRA) over all "
                "values of the continuous inputs; discrete parameters enumerated within the stated bounds. "
                "unsat = holds for all inputs of the case; sat = replayed on the unpatched library before reporting."
            ),
            "functions_encoded": source_hashes(encoded),
            "bounds": bounds,
            "obligations": obligations,
            "discharged": discharged,
            "inconclusive": len(inconclusive),
            "inconclusive_list": inconclusive[:20],
            "evaluations": len(results) + extra.get("evaluations", 0),
            "distinct_nontrivial": nontrivial + extra.get("distinct_nontrivial", 0),
            "rule": "one evaluation = one discrete case (symbolically executed once per feasible path); non-trivial = "
                    "produced at least one obligation that needed a solver query",
            "queries": sum(r.get("queries", 0) for r in results) + extra.get("queries", 0),
            "solver_s": round(sum(r.get("solver_s", 0) for r in results) + extra.get("solver_s", 0), 2),
            "paths": sum(r.get("paths", 0) or 0 for r in results),
            "nlsat_fallback": {"asked": sum(r.get("fallback_queries", 0) or 0 for r in results),
                               "decided": sum(r.get("fallback_decided", 0) or 0 for r in results),
                               "note": "queries the QF_NRA tactic left undecided, put to the plain nlsat pipeline (qfnra-nlsat) with half the time-out"},
            "canaries_killed": sum(1 for r in results if r.get("canary") == "killed"),
            "canaries_run": sum(1 for r in results if r.get("canary")),
            "cvc5_crosscheck": {
                "agree_unsat": sum(1 for r in results if (r.get("crosscheck") or {}).get("cvc5") == "unsat"),
                "no_answer_in_limit": sum(1 for r in results if (r.get("crosscheck") or {}).get("cvc5") in ("no answer", "unknown", "error")),
                "disagree": sum(1 for r in results if (r.get("crosscheck") or {}).get("cvc5") == "sat"),
                "note": "one seed-chosen discharged obligation per case re-decided by the cvc5 1.0 binary from SMT-LIB text, 4 s limit",
            },
            "cases": case_rows,
            "samples": samples,
            "checker_cmd": f"{PY} -m checks.run {prop} --tier {tier}",
            "trusted_base": ["z3 4.x/5.x nlsat", "numpy object-array semantics", "scipy.special stubs (contracts)",
                             "reference formulas in /verif/refs"],
            "known_findings_reported": [k.get("known") for k in known],
            "harness_errors": herrs[:20],
            **extra.get("coverage", {}),
        },
        "assumptions": assumptions,
        "wall_s": round(time.time() - t0, 2),
        "violations": len(violations),
    }
    os.makedirs(os.path.join(VERIF, "evidence"), exist_ok=True)
    with open(os.path.join(VERIF, "evidence", f"{prop}.json"), "w") as f:
        json.dump(ev, f, indent=1, default=str)
    for i in inconclusive[:30]:
        print(f"INCONCLUSIVE property={prop} case={i.get('case')} obligation={i.get('key')} why={i.get('why')}")
    seen = set()
    for k in known:
        if k.get("known") in seen:
            continue
        seen.add(k.get("known"))
        print(f"KNOWN-FINDING: property={prop} {k.get('known')} case={k.get('case')} obligation={k.get('key')}")
    for v in violations[:12]:
        print(f"VIOLATION property={prop} replay={v.get('replay')} case={v.get('case')} obligation={v.get('key')} {v.get('detail') or v.get('note') or ''}")
    for e in herrs[:30]:
        print(f"HARNESS-ERROR property={prop} {e}")
    print(f"SUMMARY property={prop} tier={tier} cases={len(results)} obligations={obligations} discharged={discharged} "
          f"inconclusive={len(inconclusive)} violations={len(violations)} known={len(known)} "
          f"harness_errors={len(herrs)} wall={ev['wall_s']}s")
    if violations:
        return 1
    if herrs or (obligations > 0 and discharged + len(known) == 0):
        return 3
    budget_cases = sum(1 for i in inconclusive if "wall-time budget" in str(i.get("why")))
    if obligations > 0 and (len(inconclusive) + extra.get("skipped", 0) > 0.25 * obligations or budget_cases > 0.25 * max(len(results), 1)):
        # the encoding no longer decides the property on this tree: neither "held" nor a violation
        print(f"HARNESS-ERROR property={prop} too many undecided obligations ({len(inconclusive)} of {obligations}; "
              f"{budget_cases} cases over their time budget): no verdict")
        return 3
    return 0
