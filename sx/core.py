"""SX core: symbolic scalars for running the real gbasis numpy code symbolically.

A ``Sym`` is   k * N / prod(base_i ** p_i) * exp(L)
with k an exact Fraction, N a node of a hash-consed polynomial DAG (``Node``), base_i
"denominator bases" (every distinct expression that was ever divided by) and L an optional Sym
(argument of a Gaussian factor).  The SMT solver only ever sees cross-multiplied polynomial
(in)equalities over the input variables and a few positive atoms (roots, exp, log, Boys).

The algebra done here is fraction bookkeeping only; every verdict "equal / ordered for all inputs"
is the solver's (``Ctx.prove_equal``, ``Ctx.check``).
"""
import math
import os
import time
import random
from fractions import Fraction

import numpy as real_np
import z3

z3.set_param("type_check", False)
z3.set_param("well_sorted_check", False)

# --------------------------------------------------------------------------------------------
# polynomial DAG


class Node:
    __slots__ = ("id", "op", "a", "b", "val")

    def __init__(self, nid, op, a=None, b=None, val=None):
        self.id = nid
        self.op = op  # 'v' var (val=name), 'c' const (val=Fraction), '+', '*'
        self.a = a
        self.b = b
        self.val = val

    def __repr__(self):
        if self.op == "v":
            return self.val
        if self.op == "c":
            return str(self.val)
        return f"({self.a!r}{self.op}{self.b!r})"


class Ctx:
    """One symbolic world: variables, side constraints, atoms, solver statistics."""

    def __init__(self, seed=0):
        self.nodes = {}
        self.nnodes = 0
        self.vars = {}  # name -> Node
        self.var_info = {}  # name -> dict(kind=..., dom=...)
        self.side = []  # general assumptions (list of Formula)
        self.defs = {}  # var name -> list of Formula (domain of an input / definition of an atom)
        self.subst = {}  # atom name -> Node: atom eliminated in favour of a product of other atoms (exp(L1+L2))
        self.den_list = []  # base id -> Node
        self.den_key = {}  # node id -> base id
        self.atoms = {}  # (kind, extra) -> list of (argSym, atomSym)
        self.atom_defs = {}  # var name -> (kind, argSym, extra)
        self.PI = None
        self.counter = 0
        self.nq = 0
        self.tq = 0.0
        self.n_unknown = 0
        self.eq_cache = {}
        self.z3memo = {}
        self.z3vars = {}
        self.varsets = {}
        self.inexact_floats = 0
        self.rng = random.Random(seed)
        self.probe_envs = {}
        self.radicands = []
        # path exploration
        self.prefix = []
        self.trace = []
        self.pc = []
        self.work = []
        self.assumed_nonzero = []
        self.log = []
        self.query_log = []  # (kind, result, seconds)
        self.default_timeout = 20000
        self.unify_timeout = 8000

    # ---- nodes
    def const(self, c):
        key = ("c", c)
        n = self.nodes.get(key)
        if n is None:
            n = Node(self.nnodes, "c", val=c)
            self.nnodes += 1
            self.nodes[key] = n
        return n

    def var_node(self, name):
        n = self.vars.get(name)
        if n is None:
            n = Node(self.nnodes, "v", val=name)
            self.nnodes += 1
            self.vars[name] = n
        return n

    def add(self, a, b):
        if a.op == "c" and b.op == "c":
            return self.const(a.val + b.val)
        if a.op == "c" and a.val == 0:
            return b
        if b.op == "c" and b.val == 0:
            return a
        if a.id > b.id:
            a, b = b, a
        key = ("+", a.id, b.id)
        n = self.nodes.get(key)
        if n is None:
            n = Node(self.nnodes, "+", a, b)
            self.nnodes += 1
            self.nodes[key] = n
        return n

    def mul(self, a, b):
        if a.op == "c" and b.op == "c":
            return self.const(a.val * b.val)
        if a.op == "c":
            if a.val == 0:
                return a
            if a.val == 1:
                return b
        if b.op == "c":
            if b.val == 0:
                return b
            if b.val == 1:
                return a
        if a.id > b.id:
            a, b = b, a
        # fold constant into constant*expr products
        if a.op == "c" and b.op == "*" and b.a.op == "c":
            return self.mul(self.const(a.val * b.a.val), b.b)
        key = ("*", a.id, b.id)
        n = self.nodes.get(key)
        if n is None:
            n = Node(self.nnodes, "*", a, b)
            self.nnodes += 1
            self.nodes[key] = n
        return n

    def neg(self, a):
        return self.mul(self.const(Fraction(-1)), a)

    def powi(self, a, p):
        r = None
        for _ in range(p):
            r = a if r is None else self.mul(r, a)
        return r if r is not None else self.const(Fraction(1))

    # ---- traversal helpers (iterative: DAGs can be deep)
    def _topo(self, roots, known=()):
        seen = {}
        stack = list(roots)
        while stack:
            n = stack.pop()
            if n.id in seen or n.id in known:
                continue
            seen[n.id] = n
            if n.op in "+*":
                stack.append(n.a)
                stack.append(n.b)
        return [seen[i] for i in sorted(seen)]

    def to_z3(self, root):
        memo = self.z3memo
        if root.id in memo:
            return memo[root.id]
        for n in self._topo([root], memo):
            if n.op == "v":
                sub = self.subst.get(n.val)
                memo[n.id] = self.z3var(n.val) if sub is None else self.to_z3(sub)
            elif n.op == "c":
                c = n.val
                memo[n.id] = z3.RealVal(c.numerator) if c.denominator == 1 else z3.RealVal(str(c))
            elif n.op == "+":
                memo[n.id] = memo[n.a.id] + memo[n.b.id]
            else:
                memo[n.id] = memo[n.a.id] * memo[n.b.id]
        return memo[root.id]

    def z3var(self, name):
        v = self.z3vars.get(name)
        if v is None:
            v = z3.Real(name)
            self.z3vars[name] = v
        return v

    def eval_nodes(self, roots, env):
        """float evaluation under env (an Env); returns the memo dict id -> value"""
        vals = env.vals
        for n in self._topo(roots, vals):
            if n.op == "v":
                vals[n.id] = env[n.val]
            elif n.op == "c":
                vals[n.id] = float(n.val)
            elif n.op == "+":
                vals[n.id] = vals[n.a.id] + vals[n.b.id]
            else:
                vals[n.id] = vals[n.a.id] * vals[n.b.id]
        return vals

    def varset(self, root):
        vs = self.varsets.get(root.id)
        if vs is not None:
            return vs
        for n in self._topo([root], self.varsets):
            if n.op == "v":
                sub = self.subst.get(n.val)
                self.varsets[n.id] = frozenset([n.val]) if sub is None else (frozenset([n.val]) | self.varset(sub))
            elif n.op == "c":
                self.varsets[n.id] = frozenset()
            else:
                a, b = self.varsets[n.a.id], self.varsets[n.b.id]
                self.varsets[n.id] = a if b <= a else (b if a <= b else a | b)
        return self.varsets[root.id]

    def to_smt2(self, root, defs, memo):
        """SMT-LIB term with let-free named definitions appended to defs (list of str)"""
        for n in self._topo([root], memo):
            if n.op == "v":
                sub = self.subst.get(n.val)
                memo[n.id] = "|" + n.val + "|" if sub is None else self.to_smt2(sub, defs, memo)
            elif n.op == "c":
                c = n.val
                s = str(abs(c.numerator)) + ".0"
                if c.denominator != 1:
                    s = f"(/ {s} {c.denominator}.0)"
                if c < 0:
                    s = f"(- {s})"
                memo[n.id] = s
            else:
                name = f"t{n.id}"
                defs.append(f"(define-fun {name} () Real ({n.op} {memo[n.a.id]} {memo[n.b.id]}))")
                memo[n.id] = name
        return memo[root.id]

    # ---- variables and constraints
    def fresh(self, prefix):
        self.counter += 1
        return f"{prefix}!{self.counter}"

    def var(self, name, dom=None):
        """input variable. dom: None | '>0' | '>=0' | '!=0' | ('in', lo, hi)"""
        n = self.var_node(name)
        s = Sym(self, Fraction(1), n)
        if name not in self.var_info:
            self.var_info[name] = {"kind": "input", "dom": dom}
            if dom == ">0":
                self.add_def(name, Rel(">", n))
            elif dom == ">=0":
                self.add_def(name, Rel(">=", n))
            elif dom == "!=0":
                self.add_def(name, Rel("!=", n))
            elif isinstance(dom, tuple) and dom[0] == "in":
                self.add_def(name, Rel(">", self.add(n, self.const(-Fraction(dom[1])))))
                self.add_def(name, Rel("<", self.add(n, self.const(-Fraction(dom[2])))))
        return s

    def assume(self, formula):
        self.side.append(formula)

    def add_def(self, name, formula):
        self.defs.setdefault(name, []).append(formula)

    def all_constraints(self):
        out = list(self.side)
        for fs in self.defs.values():
            out += fs
        return out

    def pi(self):
        if self.PI is None:
            n = self.var_node("PI")
            self.var_info["PI"] = {"kind": "pi"}
            self.PI = Sym(self, Fraction(1), n)
            self.add_def("PI", Rel(">", self.add(n, self.const(Fraction(-314159, 100000)))))
            self.add_def("PI", Rel("<", self.add(n, self.const(Fraction(-314160, 100000)))))
        return self.PI

    def den_base(self, node):
        bid = self.den_key.get(node.id)
        if bid is None:
            bid = len(self.den_list)
            self.den_key[node.id] = bid
            self.den_list.append(node)
        return bid

    # ---- solver
    def relevant_side(self, varset, extra=()):
        """constraints needed for a query over varset: domains / definitions of every variable
        reachable through atom definitions, plus general assumptions (and `extra`, e.g. the path
        condition) that share a variable with that set.  Definitions of atoms that do not occur
        are conservative extensions and are left out."""
        vs = set()
        chosen = list(extra)  # the path condition is always part of the query
        todo = list(varset)
        for f in extra:
            todo.extend(f.varset(self))
        pool = [(f, f.varset(self)) for f in list(self.side)]
        while True:
            while todo:
                v = todo.pop()
                if v in vs:
                    continue
                vs.add(v)
                for f in self.defs.get(v, ()):
                    chosen.append(f)
                    for w in f.varset(self):
                        if w not in vs:
                            todo.append(w)
            rest = []
            for f, fv in pool:
                if not fv or fv & vs:
                    chosen.append(f)
                    todo.extend(w for w in fv if w not in vs)
                else:
                    rest.append((f, fv))
            pool = rest
            if not todo:
                break
        return chosen

    def check(self, goal, timeout=None, kind="query", use_pc=True, want_model=False):
        """satisfiability of  side(relevant) ∧ pc ∧ goal.  returns ('unsat'|'sat'|'unknown', model)"""
        timeout = timeout or self.default_timeout
        goals = goal if isinstance(goal, (list, tuple)) else [goal]
        extra = list(self.pc) if use_pc else []
        vs = set()
        for g in goals:
            vs |= g.varset(self)
        side = self.relevant_side(vs, extra)
        s = _new_solver()
        s.set("timeout", int(timeout))
        for f in side:
            s.add(f.z3(self))
        for g in goals:
            s.add(g.z3(self))
        t = time.time()
        try:
            r = s.check()
        except z3.Z3Exception:
            r = z3.unknown
        if str(r) == "unknown" and kind in ("obligation", "sign", "path") and os.environ.get("SX_Z3_FALLBACK", "1") == "1":
            # second opinion from the plain nlsat pipeline (no preprocessing portfolio): it decides in seconds some
            # obligations on which the default QF_NRA tactic runs into its time-out, and vice versa
            s2 = z3.Tactic("qfnra-nlsat").solver()
            s2.set("timeout", max(int(timeout) // 2, 1000))
            for f in side:
                s2.add(f.z3(self))
            for g in goals:
                s2.add(g.z3(self))
            try:
                r2 = s2.check()
            except z3.Z3Exception:
                r2 = z3.unknown
            self.n_fallback = getattr(self, "n_fallback", 0) + 1
            if str(r2) != "unknown":
                r, s = r2, s2
                self.n_fallback_decided = getattr(self, "n_fallback_decided", 0) + 1
        dt = time.time() - t
        self.nq += 1
        self.tq += dt
        res = str(r)
        if res == "unknown":
            self.n_unknown += 1
        self.query_log.append((kind, res, round(dt, 4)))
        model = None
        if res == "sat" and want_model:
            m = s.model()
            model = {}
            for d in m.decls():
                v = m[d]
                try:
                    if z3.is_rational_value(v):
                        model[d.name()] = Fraction(v.numerator_as_long(), v.denominator_as_long())
                    elif z3.is_algebraic_value(v):
                        ap = v.approx(30)
                        model[d.name()] = Fraction(ap.numerator_as_long(), ap.denominator_as_long())
                except Exception:
                    pass
        return res, model

    def smt2_of(self, goal, use_pc=True):
        goals = goal if isinstance(goal, (list, tuple)) else [goal]
        extra = list(self.pc) if use_pc else []
        vs = set()
        for g in goals:
            vs |= g.varset(self)
        side = self.relevant_side(vs, extra)
        defs, memo = [], {}
        asserts = [f.smt2(self, defs, memo) for f in list(side) + list(goals)]
        allv = set()
        for f in list(side) + list(goals):
            allv |= f.varset(self)
        lines = ["(set-logic QF_NRA)"]
        lines += [f"(declare-fun |{v}| () Real)" for v in sorted(allv)]
        lines += defs
        lines += [f"(assert {a})" for a in asserts]
        lines.append("(check-sat)")
        return "\n".join(lines)

    # ---- numeric probing (never decides "holds"; only finds candidate witnesses / prunes
    #      unification queries)
    def probe_env(self, k):
        e = self.probe_envs.get(k)
        if e is None:
            e = self.probe_envs[k] = Env(self, probe=k)
        return e

    def numeric(self, sym, env):
        """float value of a Sym / CSym / number under env"""
        if isinstance(sym, CSym):
            return complex(self.numeric(sym.re, env), self.numeric(sym.im, env))
        if isinstance(sym, (complex, real_np.complexfloating)):
            return complex(sym)
        sym = lift(self, sym)
        val = float(sym.k)
        roots = []
        if sym.n is not None:
            roots.append(sym.n)
        for bid, p in sym.d:
            roots.append(self.den_list[bid])
        if roots:
            vals = self.eval_nodes(roots, env)
            if sym.n is not None:
                val *= vals[sym.n.id]
            for bid, p in sym.d:
                val /= vals[self.den_list[bid].id] ** p
        if sym.L is not None:
            val *= math.exp(self.numeric(sym.L, env))
        return val

    def _numeric_atom(self, name, env):
        kind, arg, extra = self.atom_defs[name]
        if kind == "root":
            x = self.numeric(arg, env)
            return x ** (1.0 / extra) if x >= 0 else float("nan")
        if kind == "exp":
            return math.exp(self.numeric(arg, env))
        if kind == "log":
            x = self.numeric(arg, env)
            return math.log(x) if x > 0 else float("nan")
        if kind == "boys":
            from scipy.special import hyp1f1

            T = self.numeric(arg, env)
            m = extra
            return float(hyp1f1(m + 0.5, m + 1.5, -T)) / (2 * m + 1)
        raise KeyError(kind)

    def probably_different(self, x, y):
        """True if x and y differ numerically at a probe point (so they are not identically equal)"""
        for k in range(2):
            env = self.probe_env(k)
            try:
                a = self.numeric(x, env)
                b = self.numeric(y, env)
            except (OverflowError, ZeroDivisionError, ValueError):
                continue
            if a != a or b != b or abs(a) == float("inf") or abs(b) == float("inf"):
                continue
            if abs(a - b) > 1e-6 * (abs(a) + abs(b)) + 1e-12:
                return True
        return False

    # ---- equality / unification
    def prove_equal(self, x, y, timeout=None, kind="unify"):
        """solver-decided: x == y for all valuations satisfying the side constraints (no exp factors)"""
        if x is y:
            return True
        if x.is_const and y.is_const:
            return x.k == y.k
        key = (x.k, x.n.id if x.n is not None else -1, x.d, y.k, y.n.id if y.n is not None else -1, y.d)
        r = self.eq_cache.get(key)
        if r is not None:
            return r
        if x.k == y.k and x.n is y.n and x.d == y.d:
            r = True
        elif self.probably_different(x, y):
            r = False
        else:
            res, _ = self.check(Rel("!=", diff_numerator(self, x, y)), timeout=timeout or self.unify_timeout, kind=kind, use_pc=False)
            r = res == "unsat"
        self.eq_cache[key] = r
        return r

    def same_L(self, a, b):
        if a is b:
            return True
        if a is None:
            return self.prove_equal(b, ZERO(self))
        if b is None:
            return self.prove_equal(a, ZERO(self))
        return self.prove_equal(a, b)

    def unify_atom(self, kind, arg, extra, make):
        lst = self.atoms.setdefault((kind, extra), [])
        for a, atom in lst:
            if self.prove_equal(a, arg):
                return atom
        atom = make()
        lst.append((arg, atom))
        return atom

    def new_atom(self, prefix, kind, arg, extra, positive=True):
        name = self.fresh(prefix)
        n = self.var_node(name)
        self.var_info[name] = {"kind": "atom"}
        self.atom_defs[name] = (kind, arg, extra)
        if positive:
            self.add_def(name, Rel(">", n))
        return Sym(self, Fraction(1), n), n

    def free_symbol(self, prefix="u"):
        """fresh unconstrained real (used for labelled dummy blocks etc.)"""
        name = self.fresh(prefix)
        n = self.var_node(name)
        self.var_info[name] = {"kind": "input", "dom": None}
        return Sym(self, Fraction(1), n)

    # ---- path exploration
    def explore(self, fn, max_paths=256, catch=(Exception,)):
        """run fn() once per feasible combination of symbolic branch outcomes"""
        self.work = [[]]
        results = []
        while self.work:
            if len(results) >= max_paths:
                raise RuntimeError("too many paths")
            self.prefix = self.work.pop()
            self.trace = []
            self.pc = []
            try:
                out = ("ret", fn())
            except InfeasiblePath:
                continue  # the solver refuted both outcomes of a branch under this path condition: dead path
            except catch as e:  # noqa: BLE001 - outcome of the real code on this path
                out = ("raise", e)
            results.append((list(self.pc), out))
        self.prefix, self.trace, self.pc = [], [], []
        return results

    def branch(self, formula):
        """decide a symbolic condition on the current path (splitting if both outcomes feasible)"""
        i = len(self.trace)
        if i < len(self.prefix):
            choice = self.prefix[i]
        else:
            t_res, _ = self.check(formula, kind="branch", timeout=10000)
            f_res, _ = self.check(Not(formula), kind="branch", timeout=10000)
            t_ok, f_ok = t_res != "unsat", f_res != "unsat"
            if t_ok and f_ok:
                self.work.append(self.trace + [False])
                choice = True
            elif not t_ok and not f_ok:
                raise InfeasiblePath()
            else:
                choice = t_ok
        self.trace.append(choice)
        self.pc.append(formula if choice else Not(formula))
        return choice


class InfeasiblePath(BaseException):
    pass


class Unsupported(Exception):
    """the real code did something the engine does not model (=> harness error, never a verdict)"""


class Env(dict):
    """lazy float environment: inputs from a model / probe generator, atoms from their definitions"""

    def __init__(self, ctx, base=None, probe=None):
        super().__init__(base or {})
        self.ctx = ctx
        self.probe = probe
        self.vals = {}

    def __missing__(self, name):
        ctx = self.ctx
        info = ctx.var_info.get(name, {})
        kind = info.get("kind")
        if kind == "atom":
            v = ctx._numeric_atom(name, self)
        elif kind == "pi":
            v = math.pi
        else:
            rng = random.Random(f"{self.probe}:{name}")
            dom = info.get("dom")
            if dom in (">0", ">=0"):
                v = rng.uniform(0.3, 2.5)
            elif isinstance(dom, tuple) and dom[0] == "in":
                lo, hi = float(dom[1]), float(dom[2])
                v = rng.uniform(lo + 0.25 * (hi - lo), hi - 0.25 * (hi - lo))
            else:
                v = rng.uniform(-1.5, 1.5)
                if abs(v) < 0.1:
                    v = 0.7
        self[name] = v
        return v


# --------------------------------------------------------------------------------------------
# formulas


class Formula:
    def varset(self, ctx):
        raise NotImplementedError


class Rel(Formula):
    """node  op  0"""

    __slots__ = ("op", "node")

    def __init__(self, op, node):
        self.op = op
        self.node = node

    def varset(self, ctx):
        return ctx.varset(self.node)

    def z3(self, ctx):
        e = ctx.to_z3(self.node)
        return {">": e > 0, ">=": e >= 0, "<": e < 0, "<=": e <= 0, "==": e == 0, "!=": e != 0}[self.op]

    def smt2(self, ctx, defs, memo):
        t = ctx.to_smt2(self.node, defs, memo)
        if self.op == "!=":
            return f"(not (= {t} 0.0))"
        op = "=" if self.op == "==" else self.op
        return f"({op} {t} 0.0)"

    def holds(self, ctx, env):
        v = ctx.eval_nodes([self.node], env)[self.node.id]
        if self.op in ("==", "!="):
            z = abs(v) < 1e-9
            return z if self.op == "==" else not z
        return {">": v > 0, ">=": v >= 0, "<": v < 0, "<=": v <= 0, "==": v == 0, "!=": v != 0}[self.op]

    def __repr__(self):
        return f"Rel({self.node!r} {self.op} 0)"


class BoolOp(Formula):
    def __init__(self, op, args):
        self.op = op
        self.args = list(args)

    def varset(self, ctx):
        vs = frozenset()
        for a in self.args:
            vs |= a.varset(ctx)
        return vs

    def z3(self, ctx):
        zs = [a.z3(ctx) for a in self.args]
        if self.op == "not":
            return z3.Not(zs[0])
        if self.op == "and":
            return z3.And(*zs) if zs else z3.BoolVal(True)
        if self.op == "or":
            return z3.Or(*zs) if zs else z3.BoolVal(False)
        if self.op == "=>":
            return z3.Implies(zs[0], zs[1])
        raise ValueError(self.op)

    def smt2(self, ctx, defs, memo):
        ss = [a.smt2(ctx, defs, memo) for a in self.args]
        if self.op in ("and", "or") and not ss:
            return "true" if self.op == "and" else "false"
        return "(" + self.op + " " + " ".join(ss) + ")"

    def holds(self, ctx, env):
        vs = [a.holds(ctx, env) for a in self.args]
        if self.op == "not":
            return not vs[0]
        if self.op == "and":
            return all(vs)
        if self.op == "or":
            return any(vs)
        return (not vs[0]) or vs[1]

    def __repr__(self):
        return f"{self.op}{self.args}"


class BoolConst(Formula):
    def __init__(self, v):
        self.v = bool(v)

    def varset(self, ctx):
        return frozenset()

    def z3(self, ctx):
        return z3.BoolVal(self.v)

    def smt2(self, ctx, defs, memo):
        return "true" if self.v else "false"

    def holds(self, ctx, env):
        return self.v


def Not(f):
    if isinstance(f, BoolConst):
        return BoolConst(not f.v)
    if isinstance(f, BoolOp) and f.op == "not":
        return f.args[0]
    return BoolOp("not", [f])


def And(*fs):
    return BoolOp("and", fs)


def Or(*fs):
    return BoolOp("or", fs)


def Implies(a, b):
    return BoolOp("=>", [a, b])


# --------------------------------------------------------------------------------------------
# the symbolic scalar


def _is_arr(o):
    return isinstance(o, real_np.ndarray)


class Sym:
    __slots__ = ("ctx", "k", "n", "d", "L")

    def __init__(self, ctx, k=Fraction(1), n=None, d=(), L=None):
        self.ctx = ctx
        self.k = k
        self.n = n
        self.d = d
        self.L = L

    @property
    def is_const(self):
        return self.n is None and not self.d and self.L is None

    def __repr__(self):
        if self.is_const:
            return f"Sym({self.k})"
        return f"Sym({self.k}*{'1' if self.n is None else 'n' + str(self.n.id)}/{self.d}{'' if self.L is None else '*exp(..)'})"

    def __format__(self, spec):
        return repr(self)

    def __hash__(self):
        return id(self)

    def num_node(self):
        c = self.ctx
        if self.n is None:
            return c.const(self.k)
        if self.k == 1:
            return self.n
        return c.mul(c.const(self.k), self.n)

    # -- arithmetic
    def __neg__(self):
        return Sym(self.ctx, -self.k, self.n, self.d, self.L)

    def __pos__(self):
        return self

    def __mul__(self, o):
        if _is_arr(o):
            return NotImplemented
        if isinstance(o, (complex, CSym)) or isinstance(o, real_np.complexfloating):
            return CSym.of(self.ctx, self) * o
        o = lift(self.ctx, o)
        if o is NotImplemented:
            return o
        k = self.k * o.k
        if k == 0:
            return ZERO(self.ctx)
        if self.n is None:
            n = o.n
        elif o.n is None:
            n = self.n
        else:
            n = self.ctx.mul(self.n, o.n)
        if self.L is None:
            L = o.L
        elif o.L is None:
            L = self.L
        else:
            L = self.L + o.L
        return Sym(self.ctx, k, n, dmul(self.d, o.d), L)

    __rmul__ = __mul__

    def __add__(self, o):
        if _is_arr(o):
            return NotImplemented
        if isinstance(o, (complex, CSym)) or isinstance(o, real_np.complexfloating):
            return CSym.of(self.ctx, self) + o
        o = lift(self.ctx, o)
        if o is NotImplemented:
            return o
        if self.k == 0:
            return o
        if o.k == 0:
            return self
        a, b = self, o
        c = self.ctx
        if a.L is b.L:
            L = a.L
        elif a.L is not None and b.L is not None and c.same_L(a.L, b.L):
            L = a.L
        else:
            a = materialise(a)
            b = materialise(b)
            L = None
        if a.n is None and b.n is None and not a.d and not b.d:
            k = a.k + b.k
            if k == 0:
                return ZERO(c)
            return Sym(c, k, None, (), L)
        if a.d == b.d and a.n is b.n:
            k = a.k + b.k
            if k == 0:
                return ZERO(c)
            return Sym(c, k, a.n, a.d, L)
        l = dlcm(a.d, b.d)
        n = c.add(scale_to(a, l), scale_to(b, l))
        if n.op == "c":
            if n.val == 0:
                return ZERO(c)
            return Sym(c, n.val, None, l, L)
        return Sym(c, Fraction(1), n, l, L)

    __radd__ = __add__

    def __sub__(self, o):
        if _is_arr(o):
            return NotImplemented
        if isinstance(o, (complex, CSym)):
            return CSym.of(self.ctx, self) - o
        o = lift(self.ctx, o)
        if o is NotImplemented:
            return o
        return self + (-o)

    def __rsub__(self, o):
        if _is_arr(o):
            return NotImplemented
        o = lift(self.ctx, o)
        if o is NotImplemented:
            return o
        return o + (-self)

    def __truediv__(self, o):
        if _is_arr(o):
            return NotImplemented
        if isinstance(o, (complex, CSym)):
            return CSym.of(self.ctx, self) / o
        o = lift(self.ctx, o)
        if o is NotImplemented:
            return o
        return self * o.inv()

    def __rtruediv__(self, o):
        if _is_arr(o):
            return NotImplemented
        o = lift(self.ctx, o)
        if o is NotImplemented:
            return o
        return o * self.inv()

    def inv(self):
        if self.k == 0:
            raise ZeroDivisionError("symbolic division by exact zero")
        c = self.ctx
        numer = None
        for bid, p in self.d:
            b = c.den_list[bid]
            pw = c.powi(b, p)
            numer = pw if numer is None else c.mul(numer, pw)
        d = ()
        k = 1 / self.k
        if self.n is not None:
            n = self.n
            # peel a constant factor off the numerator so bases are canonical
            if n.op == "*" and n.a.op == "c":
                k = k / n.a.val
                n = n.b
            d = ((c.den_base(n), 1),)
        return Sym(c, k, numer, d, None if self.L is None else -self.L)

    def __pow__(self, n):
        if _is_arr(n):
            return NotImplemented
        if isinstance(n, Sym):
            if not n.is_const:
                raise TypeError("symbolic exponent")
            n = n.k
        if isinstance(n, (float, real_np.floating)):
            n = Fraction(float(n))
            if n.denominator > 64:
                raise Unsupported(f"non-dyadic-small exponent {float(n)}")
        if isinstance(n, (int, real_np.integer, bool, real_np.bool_)):
            n = Fraction(int(n))
        if n.denominator == 1:
            p = n.numerator
            if p == 0:
                return ONE(self.ctx)
            if p < 0:
                return (self**(-p)).inv()
            if self.is_const:
                return Sym(self.ctx, self.k**p)
            r = self
            for _ in range(p - 1):
                r = r * self
            return r
        return root_atom(self, n.denominator) ** n.numerator

    def __rpow__(self, base):
        if self.is_const:
            return lift(self.ctx, base) ** self.k
        raise TypeError("symbolic exponent")

    def sqrt(self):
        return root_atom(self, 2)

    def exp(self):
        if self.k == 0:
            return ONE(self.ctx)
        if self.L is not None:
            raise TypeError("exp of exp")
        return Sym(self.ctx, Fraction(1), None, (), self)

    def log(self):
        return log_atom(self)

    def conjugate(self):
        return self

    conj = conjugate

    @property
    def real(self):
        return self

    @property
    def imag(self):
        return ZERO(self.ctx)

    def __abs__(self):
        if self.is_const:
            return Sym(self.ctx, abs(self.k))
        if self >= 0:
            return self
        return -self

    def __float__(self):
        if self.is_const:
            return float(self.k)
        raise TypeError("float() of a symbolic value")

    def __int__(self):
        if self.is_const and self.k.denominator == 1:
            return int(self.k)
        raise TypeError("int() of a symbolic value")

    def __index__(self):
        return self.__int__()

    def __bool__(self):
        if self.is_const:
            return self.k != 0
        return bool(self != 0)

    # -- comparisons
    def _cmp(self, o, op):
        if _is_arr(o):
            return NotImplemented
        c = self.ctx
        if isinstance(o, (float, real_np.floating)) and float(o) in (float("inf"), float("-inf")):
            pos = float(o) > 0  # IEEE comparison of a finite value with +-inf
            return {"<": pos, "<=": pos, ">": not pos, ">=": not pos, "==": False, "!=": True}[op]
        o = lift(c, o)
        if o is NotImplemented:
            return o
        if self.is_const and o.is_const:
            a, b = self.k, o.k
            return {"<": a < b, "<=": a <= b, ">": a > b, ">=": a >= b, "==": a == b, "!=": a != b}[op]
        ra, rb = _pure_root(self), _pure_root(o)
        if ra is not None and rb is not None and ra[2] == rb[2]:
            # two positive d-th roots compare like their radicands (x -> x^d is strictly increasing on x > 0)
            d = ra[2]
            return (ra[1] * ra[0] ** d)._cmp(rb[1] * rb[0] ** d, op)
        diff = self - o
        return SymBool(c, sign_formula(diff, op))

    def __lt__(self, o):
        return self._cmp(o, "<")

    def __le__(self, o):
        return self._cmp(o, "<=")

    def __gt__(self, o):
        return self._cmp(o, ">")

    def __ge__(self, o):
        return self._cmp(o, ">=")

    def __eq__(self, o):
        return self._cmp(o, "==")

    def __ne__(self, o):
        return self._cmp(o, "!=")


def _pure_root(s):
    """(k, radicand, degree) if s == k * root_atom with k > 0, else None"""
    if s.L is not None or s.d or s.n is None or s.n.op != "v" or s.k <= 0:
        return None
    info = s.ctx.atom_defs.get(s.n.val)
    if info is None or info[0] != "root":
        return None
    return (s.k, info[1], info[2])


def ZERO(ctx):
    z = getattr(ctx, "_zero", None)
    if z is None:
        z = ctx._zero = Sym(ctx, Fraction(0))
    return z


def ONE(ctx):
    z = getattr(ctx, "_one", None)
    if z is None:
        z = ctx._one = Sym(ctx, Fraction(1))
    return z


class Inf:
    """IEEE infinity showing up in the real code (e.g. 1.0 / np.array(0.0))"""


def lift(ctx, x):
    if isinstance(x, Sym):
        if x.ctx is not ctx:
            raise Unsupported("a symbolic value from an earlier run reached this one: the library keeps hidden state between calls")
        return x
    if isinstance(x, SymFloat):
        return x.sym
    if isinstance(x, (bool, real_np.bool_, int, real_np.integer)):
        return Sym(ctx, Fraction(int(x)))
    if isinstance(x, (float, real_np.floating)):
        x = float(x)
        if x == SYMFLOAT_NOMINAL:
            raise Unsupported("the nominal value of a symbolic float parameter leaked into the computation")
        if x == math.pi:
            return ctx.pi()
        if x != x or x in (float("inf"), float("-inf")):
            raise NonFinite(x)
        f = Fraction(x)
        if f.denominator > (1 << 20):
            ctx.inexact_floats += 1
        return Sym(ctx, f)
    if isinstance(x, Fraction):
        return Sym(ctx, x)
    if isinstance(x, real_np.ndarray) and x.ndim == 0:
        return lift(ctx, x.item())
    return NotImplemented


class NonFinite(ArithmeticError):
    pass


def dmul(a, b):
    if not a:
        return b
    if not b:
        return a
    d = dict(a)
    for i, p in b:
        d[i] = d.get(i, 0) + p
    return tuple(sorted(d.items()))


def dlcm(a, b):
    if a == b:
        return a
    if not a:
        return b
    if not b:
        return a
    d = dict(a)
    for i, p in b:
        if d.get(i, 0) < p:
            d[i] = p
    return tuple(sorted(d.items()))


def scale_to(s, l):
    """numerator node of s over the denominator multiset l"""
    c = s.ctx
    n = s.num_node()
    if s.d == l:
        return n
    have = dict(s.d)
    for i, p in l:
        q = p - have.get(i, 0)
        if q:
            n = c.mul(n, c.powi(c.den_list[i], q))
    return n


def diff_numerator(ctx, x, y):
    """node N with  x - y = N / lcm(den)  (x, y without exp factors)"""
    assert x.L is None and y.L is None
    l = dlcm(x.d, y.d)
    return ctx.add(scale_to(x, l), ctx.neg(scale_to(y, l)))


def strip_common_L(x, y):
    """bring x, y to exp-free form: common provably-equal L dropped, otherwise materialised"""
    c = x.ctx
    if x.L is None and y.L is None:
        return x, y
    if x.k == 0 or y.k == 0:
        return materialise(x), materialise(y)
    if x.L is not None and y.L is not None and c.same_L(x.L, y.L):
        return Sym(c, x.k, x.n, x.d), Sym(c, y.k, y.n, y.d)
    return materialise(x), materialise(y)


def materialise(s):
    """turn the exp(L) factor into an opaque positive atom (or a product of existing atoms)"""
    if s.L is None:
        return s
    c = s.ctx
    if s.L.is_const and s.L.k == 0:
        return Sym(c, s.k, s.n, s.d, None)
    if not s.L.is_const and c.prove_equal(s.L, ZERO(c)):
        return Sym(c, s.k, s.n, s.d, None)
    L = s.L
    lst = c.atoms.setdefault(("exp", None), [])
    atom = None
    for a, at in lst:
        if c.prove_equal(a, L):
            atom = at
            break
    if atom is None:
        atom = _exp_from_existing(c, L, lst)
    if atom is None:
        atom, node = c.new_atom("E", "exp", L, None)
        _relate_older_exps(c, L, atom, node, lst)
        lst.append((L, atom))
    return Sym(c, s.k, s.n, s.d, None) * atom


def _lvals(c, L):
    out = []
    for k in (0, 1):
        try:
            out.append(c.numeric(L, c.probe_env(k)))
        except (OverflowError, ZeroDivisionError, ValueError):
            out.append(float("nan"))
    return out


def _close(x, y):
    return all(a == a and b == b and abs(a - b) <= 1e-9 * (abs(a) + abs(b)) + 1e-12 for a, b in zip(x, y))


def _exp_from_existing(c, L, lst):
    """exp(L) as a product of two existing exp atoms if L = L_i + L_j is solver-provable
    (candidates found numerically, confirmed by the solver)"""
    if len(lst) > 60:
        return None
    v = _lvals(c, L)
    vals = [(_lvals(c, a), a, at) for a, at in lst]
    for i in range(len(vals)):
        for j in range(i, len(vals)):
            if _close(v, [x + y for x, y in zip(vals[i][0], vals[j][0])]):
                if c.prove_equal(L, vals[i][1] + vals[j][1]):
                    return vals[i][2] * vals[j][2]
    return None


def _relate_older_exps(c, L, atom, node, lst):
    """a new atom E = exp(L): record E_k = E * E_m (or E_k = E^2) for older atoms with L_k = L + L_m"""
    if len(lst) > 60:
        return
    v = _lvals(c, L)
    vals = [(_lvals(c, a), a, at) for a, at in lst]
    for vk, Lk, Ek in vals:
        cands = [(v, L, atom)] + vals
        for vm, Lm, Em in cands:
            if _close(vk, [x + y for x, y in zip(v, vm)]) and c.prove_equal(Lk, L + Lm):
                prod = atom * Em
                if Ek.n.val not in c.subst and Em is not Ek:
                    c.subst[Ek.n.val] = prod.num_node()
                    c.z3memo = {}
                    c.varsets = {}
                break


def _prime_factors(n):
    out = {}
    p = 2
    while p * p <= n:
        while n % p == 0:
            out[p] = out.get(p, 0) + 1
            n //= p
        p += 1
    if n > 1:
        out[n] = out.get(n, 0) + 1
    return out


def const_root(ctx, q, d):
    """q ** (1/d) for a positive Fraction q, as rational * product of prime-root atoms"""
    if q <= 0:
        raise NonFinite(f"root of non-positive constant {q}")
    # q = num/den ;  q^(1/d) = (num * den^(d-1))^(1/d) / den
    m = q.numerator * q.denominator ** (d - 1)
    res = Sym(ctx, Fraction(1, q.denominator))
    for p, e in sorted(_prime_factors(m).items()):
        whole, rem = divmod(e, d)
        if whole:
            res = res * Sym(ctx, Fraction(p**whole))
        if rem:
            # atom v = p^(1/d') with reduced degree
            g = math.gcd(rem, d)
            dd, rr = d // g, rem // g
            arg = Sym(ctx, Fraction(p))

            def make(dd=dd, p=p, arg=arg):
                atom, node = ctx.new_atom(f"r{dd}_{p}_", "root", arg, dd)
                ctx.add_def(node.val, Rel("==", ctx.add(ctx.powi(node, dd), ctx.const(Fraction(-p)))))
                return atom

            atom = ctx.unify_atom("root", arg, dd, make)
            res = res * atom**rr
    return res


def root_atom(x, d):
    """x ** (1/d), x > 0 (recorded)"""
    c = x.ctx
    if x.k == 0:
        return ZERO(c)
    L = None
    if x.L is not None:
        L = x.L * Fraction(1, d)
        x = Sym(c, x.k, x.n, x.d, None)
    if x.is_const:
        r = const_root(c, x.k, d)
    else:
        k = x.k
        core = Sym(c, Fraction(1), x.n, x.d)
        if k < 0:
            core = -core
            k = -k
        # peel constant factor from the numerator node
        if core.n is not None and core.n.op == "*" and core.n.a.op == "c":
            cv = core.n.a.val
            k = k * abs(cv)
            core = Sym(c, Fraction(1 if cv > 0 else -1), core.n.b, core.d)
        kr = const_root(c, k, d) if k != 1 else ONE(c)

        def make():
            atom, node = c.new_atom(f"root{d}_", "root", core, d)
            lhs = c.powi(node, d)
            for i, p in core.d:
                lhs = c.mul(lhs, c.powi(c.den_list[i], p))
            c.add_def(node.val, Rel("==", c.add(lhs, c.neg(core.num_node()))))
            c.radicands.append(core)
            return atom

        atom = c.unify_atom("root", core, d, make)
        r = kr * atom
    if L is not None:
        return Sym(c, r.k, r.n, r.d, L)
    return r


def log_atom(x):
    c = x.ctx
    if x.is_const and x.k == 1:
        return ZERO(c)
    if x.L is not None:
        raise TypeError("log of exp-carrying value")
    if x.is_const and x.k <= 0:
        # numpy returns -inf / nan here; infinities are not modelled
        raise Unsupported(f"log of the non-positive constant {x.k}")

    def make():
        atom, node = c.new_atom("log", "log", x, None, positive=False)
        # sign of the logarithm where the solver can place the argument relative to 1
        d = x - 1
        r1, _ = c.check(sign_formula(d, ">="), kind="log-sign", timeout=5000, use_pc=False)
        if r1 == "unsat":
            c.add_def(node.val, Rel("<", node))
        else:
            r2, _ = c.check(sign_formula(d, "<="), kind="log-sign", timeout=5000, use_pc=False)
            if r2 == "unsat":
                c.add_def(node.val, Rel(">", node))
        return atom

    return c.unify_atom("log", x, None, make)


def boys(ctx, m, T):
    """Boys function F_m(T) as an atom with 0 < F_m <= 1/(2m+1)"""
    T = lift(ctx, T)
    if T.is_const and T.k == 0:
        return Sym(ctx, Fraction(1, 2 * m + 1))
    if (not T.is_const) and T.L is None and ctx.prove_equal(T, ZERO(ctx)):
        return Sym(ctx, Fraction(1, 2 * m + 1))

    def make():
        atom, node = ctx.new_atom(f"F{m}_", "boys", T, m)
        ctx.add_def(node.val, Rel("<=", ctx.add(node, ctx.const(Fraction(-1, 2 * m + 1)))))
        return atom

    return ctx.unify_atom("boys", T, m, make)


def sign_of_base(ctx, node):
    """+1 / -1 if the solver proves the sign of a denominator base under the current path, else
    split the path on it"""
    if not ctx.pc:
        cached = ctx.eq_cache.get(("sign", node.id))
        if cached is not None:
            return cached
    r1, _ = ctx.check(Rel("<=", node), kind="sign", timeout=10000)
    if r1 == "unsat":
        s = 1
    else:
        r2, _ = ctx.check(Rel(">=", node), kind="sign", timeout=10000)
        if r2 == "unsat":
            s = -1
        else:
            s = 1 if ctx.branch(Rel(">", node)) else -1
            return s
    if not ctx.pc:
        ctx.eq_cache[("sign", node.id)] = s
    return s


def sign_formula(diff, op):
    """formula for  diff op 0  with denominators cross-multiplied by their proven signs"""
    c = diff.ctx
    diff = materialise(diff)
    sgn = 1
    for bid, p in diff.d:
        if p % 2:
            sgn *= sign_of_base(c, c.den_list[bid])
    n = diff.num_node()
    if sgn < 0:
        op = {"<": ">", "<=": ">=", ">": "<", ">=": "<=", "==": "==", "!=": "!="}[op]
    return Rel(op, n)


class SymBool:
    def __init__(self, ctx, formula):
        self.ctx = ctx
        self.f = formula

    def __bool__(self):
        return self.ctx.branch(self.f)

    def __invert__(self):
        return SymBool(self.ctx, Not(self.f))

    def __and__(self, o):
        if isinstance(o, SymBool):
            return SymBool(self.ctx, And(self.f, o.f))
        return self if o else False

    __rand__ = __and__

    def __or__(self, o):
        if isinstance(o, SymBool):
            return SymBool(self.ctx, Or(self.f, o.f))
        return True if o else self

    __ror__ = __or__


# --------------------------------------------------------------------------------------------
# complex values


class CSym:
    __slots__ = ("ctx", "re", "im")

    def __init__(self, ctx, re, im):
        self.ctx = ctx
        self.re = re
        self.im = im

    @staticmethod
    def of(ctx, x):
        if isinstance(x, CSym):
            return x
        if isinstance(x, (complex, real_np.complexfloating)):
            x = complex(x)
            return CSym(ctx, lift(ctx, x.real), lift(ctx, x.imag))
        s = lift(ctx, x)
        if s is NotImplemented:
            return s
        return CSym(ctx, s, ZERO(ctx))

    def __repr__(self):
        return f"CSym({self.re!r}, {self.im!r})"

    def __add__(self, o):
        if _is_arr(o):
            return NotImplemented
        o = CSym.of(self.ctx, o)
        if o is NotImplemented:
            return o
        return CSym(self.ctx, self.re + o.re, self.im + o.im)

    __radd__ = __add__

    def __neg__(self):
        return CSym(self.ctx, -self.re, -self.im)

    def __sub__(self, o):
        if _is_arr(o):
            return NotImplemented
        o = CSym.of(self.ctx, o)
        if o is NotImplemented:
            return o
        return CSym(self.ctx, self.re - o.re, self.im - o.im)

    def __rsub__(self, o):
        if _is_arr(o):
            return NotImplemented
        o = CSym.of(self.ctx, o)
        if o is NotImplemented:
            return o
        return o - self

    def __mul__(self, o):
        if _is_arr(o):
            return NotImplemented
        o = CSym.of(self.ctx, o)
        if o is NotImplemented:
            return o
        return CSym(self.ctx, self.re * o.re - self.im * o.im, self.re * o.im + self.im * o.re)

    __rmul__ = __mul__

    def __truediv__(self, o):
        if _is_arr(o):
            return NotImplemented
        o = CSym.of(self.ctx, o)
        if o is NotImplemented:
            return o
        den = o.re * o.re + o.im * o.im
        num = self * o.conjugate()
        return CSym(self.ctx, num.re / den, num.im / den)

    def conjugate(self):
        return CSym(self.ctx, self.re, -self.im)

    conj = conjugate

    @property
    def real(self):
        return self.re

    @property
    def imag(self):
        return self.im


def real_part(ctx, x):
    if isinstance(x, CSym):
        return x.re
    if isinstance(x, (complex, real_np.complexfloating)):
        return lift(ctx, complex(x).real)
    return lift(ctx, x)


def imag_part(ctx, x):
    if isinstance(x, CSym):
        return x.im
    if isinstance(x, (complex, real_np.complexfloating)):
        return lift(ctx, complex(x).imag)
    return ZERO(ctx)


# --------------------------------------------------------------------------------------------
# float subclass that carries a symbol (passes isinstance(x, (int, float)) argument checks)


SYMFLOAT_NOMINAL = 0.4321012345678899


class SymFloat(float):
    # numpy must not treat this as a plain float operand (it would use the nominal value): ndarray binary
    # operators return NotImplemented and Python falls back to the reflected methods below
    __array_ufunc__ = None

    def __new__(cls, sym, nominal=SYMFLOAT_NOMINAL):
        obj = float.__new__(cls, nominal)
        obj.sym = sym
        return obj

    def _b(name):  # noqa: N805
        def f(self, o):
            if isinstance(o, real_np.ndarray):
                a = real_np.empty((), dtype=object)
                a[()] = self.sym
                return getattr(a, name)(o)
            return getattr(self.sym, name)(o.sym if isinstance(o, SymFloat) else o)

        return f

    __add__ = _b("__add__")
    __radd__ = _b("__radd__")
    __sub__ = _b("__sub__")
    __rsub__ = _b("__rsub__")
    __mul__ = _b("__mul__")
    __rmul__ = _b("__rmul__")
    __truediv__ = _b("__truediv__")
    __rtruediv__ = _b("__rtruediv__")
    __pow__ = _b("__pow__")
    __lt__ = _b("__lt__")
    __le__ = _b("__le__")
    __gt__ = _b("__gt__")
    __ge__ = _b("__ge__")
    __eq__ = _b("__eq__")
    __ne__ = _b("__ne__")
    del _b

    def __neg__(self):
        return -self.sym

    def __abs__(self):
        return abs(self.sym)

    def __hash__(self):
        return id(self)

    def __bool__(self):
        return bool(self.sym != 0)

    def __repr__(self):
        return f"SymFloat({self.sym!r})"


_TACTIC = None


def _new_solver():
    """tactic-based solver: assertions are only stored (the default combined solver preprocesses every
    assertion for its incremental core, which costs ~15 ms per assert on the large shared DAGs here)"""
    global _TACTIC
    if _TACTIC is None:
        import os

        _TACTIC = z3.Tactic(os.environ.get("SX_Z3_TACTIC", "qfnra"))
    return _TACTIC.solver()
