#!/bin/sh
# tools/run_seeded_wt.sh <seed-id> <check ids...> : like run_seeded.sh but in a scratch worktree of /repo
# (GBASIS_REPO points the checks at it), so /repo itself is never touched; the worktree is removed afterwards.
cd /verif
S=$1; shift
W=/tmp/seedwt_$S
git -C /repo worktree add -q --detach "$W" HEAD || exit 3
trap 'git -C /repo worktree remove --force "$W" 2>/dev/null' EXIT INT TERM
git -C "$W" apply "/verif/seeded/$S/patch.diff" || exit 3
for P in "$@"; do
  T=${TIER:-quick}
  GBASIS_REPO="$W" ./check.sh "$P" "$T" > "/tmp/seeded_${S}_$P.log" 2>&1
  rc=$?
  echo "seed=$S check=$P tier=$T exit=$rc $(grep -c '^VIOLATION' /tmp/seeded_${S}_$P.log) violation lines; $(grep '^SUMMARY' /tmp/seeded_${S}_$P.log | cut -c1-200)"
  grep '^VIOLATION' "/tmp/seeded_${S}_$P.log" | head -2 | cut -c1-260
done
