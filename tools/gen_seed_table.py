"""Regenerate the table of seeded changes at the end of DESIGN.md (section 10) from seeded/*/meta.json."""
import json
import os
import re

ROOT = os.path.dirname(os.path.dirname(os.path.abspath(__file__)))


def key(name):
    m = re.match(r"C(\d+)([a-z]?)", name)
    return int(m.group(1)), m.group(2)


def main():
    rows = ["| seed | property | change | needs to manifest | reported by |", "|---|---|---|---|---|"]
    for d in sorted(os.listdir(os.path.join(ROOT, "seeded")), key=key):
        if not os.path.exists(os.path.join(ROOT, "seeded", d, "meta.json")):
            continue  # confirmed but not yet run against the checks
        m = json.load(open(os.path.join(ROOT, "seeded", d, "meta.json")))
        by = "; ".join(m.get("caught_by") or []) or "**not caught**"
        if m.get("missed"):
            by += " — missed by: " + m["missed"]
        cell = lambda s: str(s).replace("|", "\\|").replace("\n", " ")
        rows.append(f"| {d} | {m['property']} | {cell(m['what'])} | {cell(m['needs'])} | {cell(by)} |")
    p = os.path.join(ROOT, "DESIGN.md")
    s = open(p).read()
    start = s.index("| seed | property |")
    open(p, "w").write(s[:start] + "\n".join(rows) + "\n")
    print(len(rows) - 2, "seeds")


if __name__ == "__main__":
    main()
