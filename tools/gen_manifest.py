"""regenerate MANIFEST.json from the table below:  .venv/bin/python tools/gen_manifest.py"""
import json
import os

HERE = os.path.dirname(os.path.dirname(os.path.abspath(__file__)))
NOTE = ("Trusted: z3 (nlsat), numpy object-array machinery, the scipy.special stubs' contracts, the reference "
        "formulas in /verif/refs. Real-number semantics only: floating-point rounding is outside the claim. "
        "Discrete bounds (angular momenta, primitives, segments, shells) are listed in the evidence file.")

# property -> (level text, technique, design section) ; only built checks are listed here
SX = "symbolic execution of the real numpy code on symbolic object arrays + z3 QF_NRA (SX)"
CHECKS = {
    "C01": ("Every listed obligation (overlap block = closed-form Gaussian moments for all 36 (la,lb) pairs; public "
            "matrix = normalised reference; diagonal = 1; asymmetric = union block) is proved unsat-of-negation by z3 "
            "for ALL centres, exponents and coefficients of each enumerated discrete case; witnesses are replayed on "
            "the real code.", SX, "5 C01"),
    "C02": ("Kinetic block = -1/2 <a|Laplacian b> closed form (derivative on the right function) for all 36 (la,lb) pairs, "
            "all continuous inputs symbolic; public matrices incl. normalisation, spherical, mixed.", SX, "5 C02"),
    "C03": ("Point-charge block = McMurchie-Davidson reference with Boys atoms for la+lb <= 4 (quick) / all pairs <= (5,5) "
            "(thorough, Level B above total 5), both orientations, symbolic charges; nuclear attraction = sum.", SX, "5 C03"),
    "C04": ("ERI block = McMurchie-Davidson for every quartet class within the stated bounds (Level A l<=1, Level B l<=2 and "
            "selected f classes), physicist = chemist transposed, all-s public array incl. normalisation. The floating-point "
            "accuracy clause is outside the technique.", SX, "5 C04"),
    "C05": ("General back-end = n-fold symbolic derivative for every order triple <= 3 (quick) / <= 4 (thorough) and l <= 4 / 6; "
            "direct = same for all 27 low triples; points on centre / plane / axis; unsupported requests must raise; public "
            "functions incl. normalisation, spherical, mixed, transform.", SX, "5 C05"),
    "C06": ("All of density.py executed on a symbolic jet table: Leibniz expansion for all 125 order triples, gradient / Laplacian / "
            "Hessian (symmetric, trace = Laplacian), kinetic-energy densities, threshold rule by path exploration with symbolic "
            "threshold, PSD non-negativity, argument forwarding; end-to-end cases on the real evaluation code.", SX + " + path exploration", "5 C06"),
    "C14": ("electrostatic_potential on symbolic point-charge integrals: value and distance mask for every mask pattern with symbolic "
            "threshold and charges of either sign, square / rectangular transforms; concrete on-nucleus inputs; end-to-end on the real "
            "point-charge code.", SX + " + path exploration", "5 C14"),
    "C15": ("stress_tensor.py + density.py on the symbolic jet table with symbolic alpha, beta (special values as paths): stress tensor = "
            "documented expression and symmetric, force = -div of the reference tensor, Hessian = Jacobian of the reference force, "
            "symmetric option.", SX + " + path exploration", "5 C15"),
    "C16": ("Exact interpolatory quadrature of the library's own pointwise evaluations (symbolic grid around the product centre) equals its "
            "analytic overlap, moment and kinetic matrices element-wise, and tr(P S), tr(P T) (per shell pair, one and two centres) - code vs code.", SX, "5 C16"),
    "C17": ("Sufficient condition: arrays proved equal to Gram forms within C17's bounds (PSD / Schwarz then follow from a TRUSTED lemma); direct "
            "solver proofs of |S|<=1, 2x2 minors, (ab|ab)>=0 and the Schwarz inequality for s-type shells using exp / Boys bound instances. "
            "A Gram-form mismatch is reported only if the inequalities fail on the real output.", SX + " + trusted Gram lemma", "5 C17"),
    "C18": ("Regular-language obligations (z3 sequence theory) on the parsers' own patterns read from the source; the real parsers on "
            "skeleton files with layout chosen by symbolic integers (CrossHair, each property with a refuted wrong twin) and enumerated "
            "concretely; from_pyscf on symbolic exponents / coefficients and make_contractions (SX).", "z3 regex theory + CrossHair (z3) on the real parsers + SX", "5 C18"),
    "C19": ("One inductive step per public function from an arbitrary symbolic state: every argument element unchanged, second call == "
            "first call on fresh copies, numpy error state unchanged on returning and raising paths; fault points after seterr enumerated; "
            "renormalisation after parameter changes; make_contractions; malformed screening tolerances.", SX + " + fault enumeration", "5 C19"),
    "C20": ("Screening predicate == documented cutoff with the smallest exponents (min as path splits), None / bool handling, monotonicity in the "
            "tolerance, screened matrices == unscreened with exactly those blocks zeroed through all assembly paths, conservative bound for "
            "s-type pairs (solver-proved with ln/exp monotonicity instances).", SX + " + path exploration", "5 C20"),
    "C07": ("Moment block = closed form for every (la,lb) and order triple within bounds, order axis, overlap at order 0, "
            "binomial origin shift (code vs code).", SX, "5 C07"),
    "C08": ("Momentum / angular-momentum blocks = closed forms for every ordered pair; public matrices equal the reference for "
            "every ordered pair and are Hermitian.", SX, "5 C08"),
    "C10": ("For every l (0..6 quick, 0..10 thorough) the generated matrix, executed exactly under the shim, is proved harmonic "
            "(all Laplacian coefficients vanish), orthonormal (T S T^T = I), correctly phased, equal to an independent construction, "
            "left = right^T; caller conventions honoured for enumerated permutations / sign patterns; malformed conventions rejected.",
            SX + " (ground obligations over root atoms)", "5 C10"),
    "C11": ("Both orientations of every two-index block and all eight orientations of ERI blocks computed independently agree; "
            "every public module under every enumerated shell permutation; public arrays symmetric / Hermitian / eight-fold.", SX, "5 C11"),
    "C12": ("Translations, all 48 signed axis permutations, axis rotations with symbolic angle: arrays transform with the monomial "
            "representation matrices (code vs code); density-matrix fields (gradient, Laplacian, Hessian, stress tensor, force) are "
            "invariant / rotate as vectors and tensors; angular momentum shifts by d x p.", SX, "5 C12"),
    "C13": ("Generalized = segmented, primitive permutation, primitive split, column scaling (positive / negative), linearity of "
            "un-normalised blocks, for the public modules (code vs code).", SX, "5 C13"),
    "C09": ("Assembly of all four base classes on labelled dummy blocks for every cart/sph assignment within bounds, rectangular T, "
            "permuted/signed conventions, against an independent solid-harmonic construction; every public module's "
            "mixed/transformed result = transformed all-Cartesian result.", SX, "5 C09"),
}
PENDING = {}

props = [json.loads(l) for l in open(os.path.join(HERE, "properties.jsonl"))]
na_reason = json.load(open(os.path.join(HERE, "tools", "not_applicable.json"))) if os.path.exists(
    os.path.join(HERE, "tools", "not_applicable.json")) else {}
checks = []
na = []
for p in props:
    pid = p["id"]
    if pid in CHECKS:
        text, tech, ref = CHECKS[pid]
        checks.append({
            "property_id": pid,
            "quick_cmd": f"./check.sh {pid} quick",
            "thorough_cmd": f"./check.sh {pid} thorough",
            "evidence_file": f"/verif/evidence/{pid}.json",
            "replay_cmd_template": ".venv/bin/python -W ignore -m sx.replay {path}",
            "engine": "sx",
            "level_claimed": {"category": "other", "text": text, "design_ref": "DESIGN.md §" + ref},
            "level_note": NOTE,
            "technique": tech,
        })
    else:
        na.append({"property_id": pid, "reason": na_reason.get(pid, "check not built yet in this round (planned: DESIGN.md §5); not a claim of inapplicability")})
man = {
    "version": 1,
    "setup_cmd": "./setup.sh",
    "hooks": {"guard": "none", "enable": "no source hooks: the numpy/scipy module globals of gbasis are replaced from outside by the harness (sx/shim.py)",
              "baseline_off_cmd": "cd /repo && /venv/bin/python -m pytest -q -p no:cacheprovider --timeout=900", "source_commits": [], "add_only": True},
    "engines": [{"name": "sx", "path": "/verif/sx", "serves_properties": sorted(CHECKS), "kind_free_text": "symbolic execution of the real numpy code on object arrays of symbolic scalars; z3 decides every obligation; CrossHair for pure-Python parts"}],
    "checks": checks,
    "notes": "See DESIGN.md. Exit codes: 0 held, 1 VIOLATION (replayed), 3 harness error / nothing decidable.",
    "not_applicable": na,
}
json.dump(man, open(os.path.join(HERE, "MANIFEST.json"), "w"), indent=1)
print("checks:", [c["property_id"] for c in checks], "not_applicable:", len(na))
