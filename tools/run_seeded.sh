#!/bin/sh
# tools/run_seeded.sh <seed-id> <check ids...>   apply /verif/seeded/<seed-id>/patch.diff to /repo, run the quick checks, undo.
# (the patch is never committed to /repo; /repo must be clean before)
cd /verif
S=$1; shift
[ -z "$(git -C /repo status --porcelain)" ] || { echo "/repo not clean"; exit 3; }
git -C /repo apply "/verif/seeded/$S/patch.diff" || exit 3
trap 'git -C /repo checkout -- . ; git -C /repo clean -fdq gbasis' EXIT INT TERM
for P in "$@"; do
  T=${TIER:-quick}
  ./check.sh "$P" "$T" > "/tmp/seeded_${S}_$P.log" 2>&1
  rc=$?
  echo "seed=$S check=$P tier=$T exit=$rc $(grep -c '^VIOLATION' /tmp/seeded_${S}_$P.log) violation lines; $(grep '^SUMMARY' /tmp/seeded_${S}_$P.log | cut -c1-200)"
  grep '^VIOLATION' "/tmp/seeded_${S}_$P.log" | head -2 | cut -c1-260
done
