#!/bin/sh
# tools/confirm_seed.sh <id> : confirm a sub-agent's seeded change in its scratch worktree /tmp/wt/<id>
# (patch applied there): demo exit 1 with the patch, exit 0 on the unchanged /repo, existing test-suite passes with the patch.
ID=$1
W=/tmp/wt/$ID; O=/tmp/wt_out/$ID; D=/verif/seeded/$ID
mkdir -p $D
cp $O/patch.diff $D/patch.diff; cp $O/demo.py $D/demo.py
cd $W
git diff > /tmp/confirm_$ID.diff
cmp -s /tmp/confirm_$ID.diff $D/patch.diff || echo "NOTE: worktree diff differs from saved patch.diff"
GBASIS_PATH=$W PYTHONPATH=$W /venv/bin/python -W ignore $D/demo.py > /tmp/confirm_${ID}_with.log 2>&1; A=$?
GBASIS_PATH=/repo PYTHONPATH=/repo /venv/bin/python -W ignore $D/demo.py > /tmp/confirm_${ID}_without.log 2>&1; B=$?
echo "demo with patch exit=$A   without patch exit=$B"
PYTHONPATH=$W /venv/bin/python -m pytest -q -p no:cacheprovider --timeout=900 tests 2>&1 | tail -1 > /tmp/confirm_${ID}_tests.log
cat /tmp/confirm_${ID}_tests.log
