#!/bin/sh
# ./check.sh C01 quick|thorough   -- (re)builds the overlay venv if needed, then runs the check
cd "$(dirname "$0")"
[ -x .venv/bin/python ] && .venv/bin/python -c "import z3" 2>/dev/null || ./setup.sh >/dev/null || exit 3
exec .venv/bin/python -W ignore -m checks.run "$1" --tier "${2:-quick}"
