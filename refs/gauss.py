"""Reference formulas, generic over the number type.

Every function takes an `ops` object providing pi, sqrt, exp, boys(m, T), root(x, num, den) and
`zero`; the same code is the solver-side oracle (ops = SymOps) and the replay-side oracle
(ops = FloatOps).  The formulas are closed forms / McMurchie-Davidson expansions - deliberately not
the Obara-Saika / Head-Gordon-Pople recursions the library uses.
"""
import math
from fractions import Fraction
from math import comb


class FloatOps:
    pi = math.pi
    zero = 0.0
    one = 1.0

    @staticmethod
    def sqrt(x):
        return math.sqrt(x)

    @staticmethod
    def exp(x):
        return math.exp(x)

    @staticmethod
    def log(x):
        return math.log(x)

    @staticmethod
    def pow(x, num, den=1):
        return x ** (num / den)

    @staticmethod
    def boys(m, T):
        from scipy.special import hyp1f1

        return float(hyp1f1(m + 0.5, m + 1.5, -T)) / (2 * m + 1)

    @staticmethod
    def const(q):
        return float(q)


class SymOps:
    def __init__(self, ctx):
        from sx import core

        self.ctx = ctx
        self.core = core
        self.zero = core.ZERO(ctx)
        self.one = core.ONE(ctx)

    @property
    def pi(self):
        return self.ctx.pi()

    def sqrt(self, x):
        return self.core.lift(self.ctx, x).sqrt()

    def exp(self, x):
        return self.core.lift(self.ctx, x).exp()

    def log(self, x):
        return self.core.lift(self.ctx, x).log()

    def pow(self, x, num, den=1):
        return self.core.lift(self.ctx, x) ** Fraction(num, den)

    def boys(self, m, T):
        return self.core.boys(self.ctx, m, T)

    def const(self, q):
        return self.core.Sym(self.ctx, Fraction(q))


def comps(l):
    """gbasis default Cartesian component order"""
    return [(x, y, l - x - y) for x in range(l, -1, -1) for y in range(l - x, -1, -1)]


def df(n):
    """double factorial with (-1)!! = 0!! = 1"""
    r = 1
    while n > 1:
        r *= n
        n -= 2
    return r


def norm_prim(ops, a, comp):
    """textbook normalisation constant of x^i y^j z^k exp(-a r^2)"""
    l = sum(comp)
    n = ops.pow(2 * a / ops.pi, 3, 4) * ops.pow(4 * a, l, 2)
    d = df(2 * comp[0] - 1) * df(2 * comp[1] - 1) * df(2 * comp[2] - 1)
    if d != 1:
        n = n / ops.sqrt(ops.const(d))
    return n


def poly_mul(p, q, zero):
    r = {}
    for i, a in p.items():
        for j, b in q.items():
            r[i + j] = r.get(i + j, zero) + a * b
    return r


def shifted_power(c, n, one):
    """coefficients of (t + c)^n in t"""
    out = {}
    cp = one
    for k in range(n + 1):
        # term comb(n, k) c^k t^(n-k)
        out[n - k] = comb(n, k) * cp
        cp = cp * c
    return out


def gauss_moment_1d(ops, p, poly):
    """integral of poly(t) exp(-p t^2) dt  (poly: dict power -> coeff), without sqrt(pi/p)"""
    tot = ops.zero
    for s, c in poly.items():
        if s % 2:
            continue
        # int t^s e^{-p t^2} = (s-1)!!/(2p)^(s/2) sqrt(pi/p)
        term = c * df(s - 1)
        if s:
            term = term / (2 * p) ** (s // 2)
        tot = tot + term
    return tot


def overlap_poly_1d(ops, a, A, b, B, i, j, extra=None):
    """polynomial (dict) in t = x - P of (x-A)^i (x-B)^j [* extra factors (C, e): (x-C)^e]"""
    p = a + b
    P = (a * A + b * B) / p
    poly = poly_mul(shifted_power(P - A, i, ops.one), shifted_power(P - B, j, ops.one), ops.zero)
    if extra:
        for C, e in extra:
            poly = poly_mul(poly, shifted_power(P - C, e, ops.one), ops.zero)
    return poly


def prim_1d(ops, a, A, b, B, poly_fn):
    """sqrt(pi/p) exp(-mu (A-B)^2) * integral of the given polynomial against exp(-p t^2)"""
    p = a + b
    mu = a * b / p
    return ops.sqrt(ops.pi / p) * ops.exp(-mu * (A - B) * (A - B)) * gauss_moment_1d(ops, p, poly_fn)


def s1d(ops, a, A, b, B, i, j, extra=None):
    return prim_1d(ops, a, A, b, B, overlap_poly_1d(ops, a, A, b, B, i, j, extra))


def deriv_poly(poly, b, zero):
    """d/dx of poly(x-B) exp(-b (x-B)^2) = newpoly(x-B) exp(...)"""
    out = {}
    for m, c in poly.items():
        if m > 0:
            out[m - 1] = out.get(m - 1, zero) + m * c
        out[m + 1] = out.get(m + 1, zero) - 2 * b * c
    return out


def d1d(ops, a, A, b, B, i, j, k, extra=None):
    """int (x-A)^i e^{-a(x-A)^2} [extra] d^k/dx^k [(x-B)^j e^{-b(x-B)^2}] dx  (derivative on the RIGHT function)"""
    polyB = {j: ops.one}
    for _ in range(k):
        polyB = deriv_poly(polyB, b, ops.zero)
    tot = ops.zero
    for m, c in polyB.items():
        if m < 0:
            continue
        tot = tot + c * s1d(ops, a, A, b, B, i, m, extra)
    return tot


def contracted(ops, shell_a, shell_b, prim_fn):
    """sum_{k,l} c_k c_l N_k N_l prim_fn(a_k, b_l, compa, compb) for all segments / components.

    shell = dict(l, A (3), exps [K], coeffs [K][M]); returns nested dict [Ma][ca][Mb][cb] as a
    4-level list.  Uses the default component order.
    """
    la, lb = shell_a["l"], shell_b["l"]
    ca, cb = comps(la), comps(lb)
    Ka, Kb = len(shell_a["exps"]), len(shell_b["exps"])
    Ma, Mb = len(shell_a["coeffs"][0]), len(shell_b["coeffs"][0])
    out = [[[[ops.zero for _ in cb] for _ in range(Mb)] for _ in ca] for _ in range(Ma)]
    for ia, compa in enumerate(ca):
        for ib, compb in enumerate(cb):
            prim = [[None] * Kb for _ in range(Ka)]
            for k in range(Ka):
                na = norm_prim(ops, shell_a["exps"][k], compa)
                for l in range(Kb):
                    nb = norm_prim(ops, shell_b["exps"][l], compb)
                    prim[k][l] = na * nb * prim_fn(shell_a["exps"][k], shell_b["exps"][l], compa, compb)
            for ma in range(Ma):
                for mb in range(Mb):
                    tot = ops.zero
                    for k in range(Ka):
                        for l in range(Kb):
                            tot = tot + shell_a["coeffs"][k][ma] * shell_b["coeffs"][l][mb] * prim[k][l]
                    out[ma][ia][mb][ib] = tot
    return out


def overlap_prim(ops, A, B):
    def f(a, b, ca, cb):
        r = ops.one
        for ax in range(3):
            r = r * s1d(ops, a, A[ax], b, B[ax], ca[ax], cb[ax])
        return r

    return f


def moment_prim(ops, A, B, C, order):
    def f(a, b, ca, cb):
        r = ops.one
        for ax in range(3):
            r = r * s1d(ops, a, A[ax], b, B[ax], ca[ax], cb[ax], [(C[ax], order[ax])])
        return r

    return f


def kinetic_prim(ops, A, B):
    """-1/2 sum_axis <a| d^2/dx_axis^2 |b>  (derivative applied to the right function)"""

    def f(a, b, ca, cb):
        tot = ops.zero
        for ax in range(3):
            r = ops.one
            for ax2 in range(3):
                if ax2 == ax:
                    r = r * d1d(ops, a, A[ax2], b, B[ax2], ca[ax2], cb[ax2], 2)
                else:
                    r = r * s1d(ops, a, A[ax2], b, B[ax2], ca[ax2], cb[ax2])
            tot = tot + r
        return tot * Fraction(-1, 2) if not isinstance(tot, float) else -0.5 * tot

    return f


def grad_prim(ops, A, B, axis):
    """<a| d/dx_axis |b> (derivative on the right function)"""

    def f(a, b, ca, cb):
        r = ops.one
        for ax2 in range(3):
            if ax2 == axis:
                r = r * d1d(ops, a, A[ax2], b, B[ax2], ca[ax2], cb[ax2], 1)
            else:
                r = r * s1d(ops, a, A[ax2], b, B[ax2], ca[ax2], cb[ax2])
        return r

    return f


def angmom_prim(ops, A, B, axis):
    """<a| (r x grad)_axis |b> about the coordinate origin, derivative on the right function"""
    j, k = (axis + 1) % 3, (axis + 2) % 3
    O = [ops.zero, ops.zero, ops.zero]

    def term(a, b, ca, cb, rax, dax):
        # < a | r_rax d/dr_dax | b >
        r = ops.one
        for ax in range(3):
            extra = [(O[ax], 1)] if ax == rax else None
            if ax == dax:
                r = r * d1d(ops, a, A[ax], b, B[ax], ca[ax], cb[ax], 1, extra)
            else:
                r = r * s1d(ops, a, A[ax], b, B[ax], ca[ax], cb[ax], extra)
        return r

    def f(a, b, ca, cb):
        return term(a, b, ca, cb, j, k) - term(a, b, ca, cb, k, j)

    return f


# ---- McMurchie-Davidson -------------------------------------------------------------------


def hermite_E(ops, i, j, PA, PB, h, K):
    """E^{ij}_t for t = 0..i+j (dict), h = 1/(2p), K = exp(-mu X_AB^2)"""
    E = {(0, 0): {0: K}}

    def get(ii, jj, t):
        if t < 0:
            return ops.zero
        return E[(ii, jj)].get(t, ops.zero)

    for ii in range(i):
        E[(ii + 1, 0)] = {
            t: h * get(ii, 0, t - 1) + PA * get(ii, 0, t) + (t + 1) * get(ii, 0, t + 1) for t in range(ii + 2)
        }
    for ii in range(i + 1):
        if ii != i:
            continue
        for jj in range(j):
            E[(ii, jj + 1)] = {
                t: h * get(ii, jj, t - 1) + PB * get(ii, jj, t) + (t + 1) * get(ii, jj, t + 1)
                for t in range(ii + jj + 2)
            }
    return E[(i, j)]


def hermite_R(ops, N, p, PC, Fm):
    """R^n_{tuv} for t+u+v <= N; Fm[n] = F_n(p |PC|^2)"""
    R = {}
    for n in range(N + 1):
        R[(n, 0, 0, 0)] = ((-2 * p) ** n) * Fm[n]

    def get(n, t, u, v):
        if t < 0 or u < 0 or v < 0:
            return ops.zero
        return R[(n, t, u, v)]

    for tot in range(1, N + 1):
        for t in range(tot + 1):
            for u in range(tot - t + 1):
                v = tot - t - u
                for n in range(N - tot + 1):
                    if t > 0:
                        R[(n, t, u, v)] = (t - 1) * get(n + 1, t - 2, u, v) + PC[0] * get(n + 1, t - 1, u, v)
                    elif u > 0:
                        R[(n, t, u, v)] = (u - 1) * get(n + 1, t, u - 2, v) + PC[1] * get(n + 1, t, u - 1, v)
                    else:
                        R[(n, t, u, v)] = (v - 1) * get(n + 1, t, u, v - 2) + PC[2] * get(n + 1, t, u, v - 1)
    return R


def nuclear_prim(ops, A, B, C):
    """int G_a G_b / |r - C|  for primitives (positive kernel; caller applies -q)"""
    cache = {}

    def f(a, b, ca, cb):
        key = (id(a), id(b)) if not isinstance(a, float) else (a, b)
        if key not in cache:
            p = a + b
            mu = a * b / p
            P = [(a * A[x] + b * B[x]) / p for x in range(3)]
            PC = [P[x] - C[x] for x in range(3)]
            T = p * (PC[0] * PC[0] + PC[1] * PC[1] + PC[2] * PC[2])
            cache[key] = (p, mu, P, PC, T, {})
        p, mu, P, PC, T, rc = cache[key]
        L = sum(ca) + sum(cb)
        if L not in rc:
            Fm = [ops.boys(m, T) for m in range(L + 1)]
            rc[L] = hermite_R(ops, L, p, PC, Fm)
        R = rc[L]
        h = 1 / (2 * p)
        E = []
        for x in range(3):
            K = ops.exp(-mu * (A[x] - B[x]) * (A[x] - B[x]))
            E.append(hermite_E(ops, ca[x], cb[x], P[x] - A[x], P[x] - B[x], h, K))
        tot = ops.zero
        for t, et in E[0].items():
            for u, eu in E[1].items():
                for v, ev in E[2].items():
                    tot = tot + et * eu * ev * R[(0, t, u, v)]
        return tot * (2 * ops.pi / p)

    return f


def eri_prim(ops, A, B, C, D):
    """(ab|cd) for primitives (chemists' notation), un-normalised"""

    def f(a, b, c, d, ca, cb, cc, cd):
        p = a + b
        q = c + d
        mu1 = a * b / p
        mu2 = c * d / q
        P = [(a * A[x] + b * B[x]) / p for x in range(3)]
        Q = [(c * C[x] + d * D[x]) / q for x in range(3)]
        alpha = p * q / (p + q)
        PQ = [P[x] - Q[x] for x in range(3)]
        T = alpha * (PQ[0] * PQ[0] + PQ[1] * PQ[1] + PQ[2] * PQ[2])
        L = sum(ca) + sum(cb) + sum(cc) + sum(cd)
        Fm = [ops.boys(m, T) for m in range(L + 1)]
        R = hermite_R(ops, L, alpha, PQ, Fm)
        E1, E2 = [], []
        for x in range(3):
            K1 = ops.exp(-mu1 * (A[x] - B[x]) * (A[x] - B[x]))
            K2 = ops.exp(-mu2 * (C[x] - D[x]) * (C[x] - D[x]))
            E1.append(hermite_E(ops, ca[x], cb[x], P[x] - A[x], P[x] - B[x], 1 / (2 * p), K1))
            E2.append(hermite_E(ops, cc[x], cd[x], Q[x] - C[x], Q[x] - D[x], 1 / (2 * q), K2))
        tot = ops.zero
        for t, et in E1[0].items():
            for u, eu in E1[1].items():
                for v, ev in E1[2].items():
                    e1 = et * eu * ev
                    for t2, ft in E2[0].items():
                        for u2, fu in E2[1].items():
                            for v2, fv in E2[2].items():
                                sgn = -1 if (t2 + u2 + v2) % 2 else 1
                                tot = tot + sgn * e1 * ft * fu * fv * R[(0, t + t2, u + u2, v + v2)]
        return tot * 2 * ops.pow(ops.pi, 5, 2) / (p * q * ops.sqrt(p + q))

    return f


def contracted4(ops, shells, prim_fn):
    """contracted ERI block [Ma][ca][Mb][cb][Mc][cc][Md][cd] flattened into dict keyed by index tuple"""
    cs = [comps(s["l"]) for s in shells]
    Ks = [len(s["exps"]) for s in shells]
    Ms = [len(s["coeffs"][0]) for s in shells]
    out = {}
    import itertools

    norms = [
        [[norm_prim(ops, s["exps"][k], comp) for k in range(K)] for comp in c] for s, c, K in zip(shells, cs, Ks)
    ]
    for ia, ib, ic, id_ in itertools.product(*[range(len(c)) for c in cs]):
        prim = {}
        for ks in itertools.product(*[range(K) for K in Ks]):
            n = norms[0][ia][ks[0]] * norms[1][ib][ks[1]] * norms[2][ic][ks[2]] * norms[3][id_][ks[3]]
            prim[ks] = n * prim_fn(
                shells[0]["exps"][ks[0]], shells[1]["exps"][ks[1]], shells[2]["exps"][ks[2]], shells[3]["exps"][ks[3]],
                cs[0][ia], cs[1][ib], cs[2][ic], cs[3][id_],
            )
        for ms in itertools.product(*[range(M) for M in Ms]):
            tot = ops.zero
            for ks, v in prim.items():
                cf = (
                    shells[0]["coeffs"][ks[0]][ms[0]] * shells[1]["coeffs"][ks[1]][ms[1]]
                    * shells[2]["coeffs"][ks[2]][ms[2]] * shells[3]["coeffs"][ks[3]][ms[3]]
                )
                tot = tot + cf * v
            out[(ms[0], ia, ms[1], ib, ms[2], ic, ms[3], id_)] = tot
    return out


# ---- pointwise evaluation ------------------------------------------------------------------


def dpoly_at(ops, alpha, x, a, n):
    """[d^n/dx^n (x^a e^{-alpha x^2})] / e^{-alpha x^2}  evaluated at x  (repeated symbolic differentiation)"""
    poly = {a: ops.one}
    for _ in range(n):
        poly = deriv_poly(poly, alpha, ops.zero)
    tot = ops.zero
    for m, c in poly.items():
        if m < 0:
            continue
        term = c
        for _ in range(m):
            term = term * x
        tot = tot + term
    return tot


def eval_shell(ops, sh, point, orders, normalise=False):
    """values [M][comp] of the (optionally normalised) contracted Cartesian functions' mixed derivative at point"""
    l = sh["l"]
    cs = comps(l)
    K, M = len(sh["exps"]), len(sh["coeffs"][0])
    d = [point[x] - sh["A"][x] for x in range(3)]
    r2 = d[0] * d[0] + d[1] * d[1] + d[2] * d[2]
    out = [[ops.zero for _ in cs] for _ in range(M)]
    for ic, comp in enumerate(cs):
        prim = []
        for k in range(K):
            a = sh["exps"][k]
            v = norm_prim(ops, a, comp) * ops.exp(-a * r2)
            for ax in range(3):
                v = v * dpoly_at(ops, a, d[ax], comp[ax], orders[ax])
            prim.append(v)
        for m in range(M):
            tot = ops.zero
            for k in range(K):
                tot = tot + sh["coeffs"][k][m] * prim[k]
            out[m][ic] = tot
    if normalise:
        blk = contracted(ops, sh, sh, overlap_prim(ops, sh["A"], sh["A"]))
        for m in range(M):
            for ic in range(len(cs)):
                out[m][ic] = out[m][ic] / ops.sqrt(blk[m][ic][m][ic])
    return out
