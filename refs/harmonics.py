"""Independent real regular solid harmonics (Helgaker/Jorgensen/Olsen eq. 6.4.47 form).

  C_lm + i S_lm = sqrt((2 - d_m0) (l-m)!/(l+m)!) * Pi_lm(z, r^2) * (x + i y)^m
  Pi_lm = sum_k (-1)^k 2^-l C(l,k) C(2l-2k, l) (l-2k)!/(l-2k-m)!  r^(2k) z^(l-2k-m)

They are Racah-normalised (C_l0 has z^l coefficient 1 ... R_ll = sqrt((2l)!)/(2^l l!) Re (x+iy)^l).
This derivation (closed form in z and r^2) differs from the library's (x,y,z) triple-sum expansion.
"""
from fractions import Fraction
from math import comb, factorial


def poly_add(p, q, s=1):
    for k, v in q.items():
        p[k] = p.get(k, 0) + s * v
        if p[k] == 0:
            del p[k]
    return p


def poly_mul(p, q):
    r = {}
    for (a, b, c), u in p.items():
        for (d, e, f), v in q.items():
            k = (a + d, b + e, c + f)
            r[k] = r.get(k, 0) + u * v
    return {k: v for k, v in r.items() if v != 0}


def poly_pow(p, n):
    r = {(0, 0, 0): Fraction(1)}
    for _ in range(n):
        r = poly_mul(r, p)
    return r


def xpiy_power(m):
    """(re, im) polynomials of (x + i y)^m"""
    re, im = {}, {}
    for k in range(m + 1):
        c = comb(m, k)  # x^(m-k) (i y)^k
        ph = k % 4
        mono = (m - k, k, 0)
        if ph == 0:
            re[mono] = re.get(mono, 0) + c
        elif ph == 1:
            im[mono] = im.get(mono, 0) + c
        elif ph == 2:
            re[mono] = re.get(mono, 0) - c
        else:
            im[mono] = im.get(mono, 0) - c
    return ({k: Fraction(v) for k, v in re.items() if v}, {k: Fraction(v) for k, v in im.items() if v})


def solid_harmonic(l, m):
    """returns (poly, radicand q): R_lm = sqrt(q) * poly, m >= 0 cosine-like, m < 0 sine-like (|m|)"""
    am = abs(m)
    r2 = {(2, 0, 0): Fraction(1), (0, 2, 0): Fraction(1), (0, 0, 2): Fraction(1)}
    pi_lm = {}
    for k in range((l - am) // 2 + 1):
        c = Fraction((-1) ** k * comb(l, k) * comb(2 * l - 2 * k, l) * factorial(l - 2 * k), 2**l * factorial(l - 2 * k - am))
        term = poly_mul(poly_pow(r2, k), {(0, 0, l - 2 * k - am): c})
        poly_add(pi_lm, term)
    re, im = xpiy_power(am)
    ang = re if m >= 0 else im
    q = Fraction((2 - (am == 0)) * factorial(l - am), factorial(l + am))
    return poly_mul(pi_lm, ang), q


def df(n):
    r = 1
    while n > 1:
        r *= n
        n -= 2
    return r


def transformation(ops, l, cart_order, sph_labels):
    """matrix T[i][c] taking *normalised* Cartesian components (cart_order: list of (ax,ay,az)) to the
    normalised real solid harmonics named by sph_labels ('c0','s1','-c2', ...)"""
    T = []
    for lab in sph_labels:
        sign = 1
        if lab[0] == "-":
            sign, lab = -1, lab[1:]
        m = int(lab[1:])
        if lab[0] == "s":
            m = -m
        poly, q = solid_harmonic(l, m)
        row = []
        for comp in cart_order:
            comp = tuple(int(v) for v in comp)
            c = poly.get(comp, Fraction(0))
            if c == 0:
                row.append(ops.zero)
                continue
            # normalised cartesian:  x^a y^b z^c N(a,b,c);  N(a,b,c)/N(l,0,0) = sqrt((2l-1)!!/prod (2a_i-1)!!)
            rad = q * c * c * Fraction(df(2 * comp[0] - 1) * df(2 * comp[1] - 1) * df(2 * comp[2] - 1), df(2 * l - 1))
            v = ops.sqrt(ops.const(rad))
            row.append(v * (sign if c > 0 else -sign))
        T.append(row)
    return T


def default_sph_labels(l):
    if l == 1:
        return ["c1", "s1", "c0"]
    return [f"s{m}" for m in range(l, 0, -1)] + [f"c{m}" for m in range(l + 1)]
