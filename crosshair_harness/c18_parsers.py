"""CrossHair harness for C18: the real parsers on skeleton files whose layout is chosen by symbolic integers.

`gbasis.parsers.open` is shadowed (from outside; nothing in /repo is edited) by a function returning the text
under test, so no file system is involved.  Every property has a twin (`*_twin`) whose expectation is wrong on
purpose: CrossHair must refute the twin, otherwise its verdict on the property itself is not believed.
"""
import io

from crosshair import realize

import gbasis.parsers as P
from checks.c18 import expected_gbs, expected_nwchem, gbs_text, nwchem_text, same_parse

_TEXT = [""]


class _Fh:
    def __init__(self, text):
        self.text = text

    def read(self):
        return self.text

    def __enter__(self):
        return self

    def __exit__(self, *exc):
        return False


def _fake_open(path, mode="r"):
    return _Fh(_TEXT[0])


P.open = _fake_open

NW_LINES = ["", "# c", "#", "BASIS \"ao basis\" PRINT"]
GBS_LINES = ["", "! c", "!"]
ELS = [("H", "He"), ("He", "Li"), ("Li", "H"), ("B", "C")]


def _nw(n, k0, k1, gap, e):
    # the layout parameters are symbolic integers; they are realised (one z3 model per path, every model is
    # eventually enumerated) before the text is built: CrossHair's symbolic StringIO / regex model is too slow
    n, k0, k1, gap, e = realize(n), realize(k0), realize(k1), realize(gap), realize(e)
    pre = [NW_LINES[k0], NW_LINES[k1]][:n]
    _TEXT[0] = nwchem_text(pre, gap, 0, "plain", elements=ELS[e], comments=False)
    return P.parse_nwchem("x")


def _gbs(n, k0, k1, gap, e):
    n, k0, k1, gap, e = realize(n), realize(k0), realize(k1), realize(gap), realize(e)
    pre = [GBS_LINES[k0], GBS_LINES[k1]][:n]
    _TEXT[0] = gbs_text(pre, gap, 0, "D", elements=ELS[e])
    return P.parse_gbs("x")


def nwchem_pre(n: int, k0: int, k1: int) -> bool:
    """
    text before the first element: n = 0, 1, 2 lines, each blank / a comment

    pre: 0 <= n <= 2 and 0 <= k0 < 3 and 0 <= k1 < 3
    post: _
    """
    return same_parse(_nw(n, k0, k1, 2, 0), expected_nwchem(ELS[0]))


def nwchem_pre_twin(n: int, k0: int, k1: int) -> bool:
    """
    pre: 0 <= n <= 2 and 0 <= k0 < 3 and 0 <= k1 < 3
    post: _
    """
    return same_parse(_nw(n, k0, k1, 2, 0), expected_nwchem(ELS[1]))


def nwchem_gap(gap: int, e: int, k0: int) -> bool:
    """
    pre: 1 <= gap <= 3 and 0 <= e < 4 and 0 <= k0 < 4
    post: _
    """
    return same_parse(_nw(1, k0, 0, gap, e), expected_nwchem(ELS[e]))


def nwchem_gap_twin(gap: int, e: int, k0: int) -> bool:
    """
    pre: 1 <= gap <= 3 and 0 <= e < 4 and 0 <= k0 < 4
    post: _
    """
    return same_parse(_nw(1, k0, 0, gap, e), expected_nwchem(ELS[(e + 1) % 4]))


def gbs_pre(n: int, k0: int, k1: int) -> bool:
    """
    pre: 0 <= n <= 2 and 0 <= k0 < 3 and 0 <= k1 < 3
    post: _
    """
    return same_parse(_gbs(n, k0, k1, 2, 0), expected_gbs(ELS[0]))


def gbs_pre_twin(n: int, k0: int, k1: int) -> bool:
    """
    pre: 0 <= n <= 2 and 0 <= k0 < 3 and 0 <= k1 < 3
    post: _
    """
    return same_parse(_gbs(n, k0, k1, 2, 0), expected_gbs(ELS[1]))


def gbs_gap(gap: int, e: int, k0: int) -> bool:
    """
    pre: 1 <= gap <= 3 and 0 <= e < 4 and 0 <= k0 < 3
    post: _
    """
    return same_parse(_gbs(1, k0, 0, gap, e), expected_gbs(ELS[e]))


def gbs_gap_twin(gap: int, e: int, k0: int) -> bool:
    """
    pre: 1 <= gap <= 3 and 0 <= e < 4 and 0 <= k0 < 3
    post: _
    """
    return same_parse(_gbs(1, k0, 0, gap, e), expected_gbs(ELS[(e + 1) % 4]))


NOISE = ["blank", "comment"]


def _nw_noise(kind, pos, e):
    kind, pos, e = realize(kind), realize(pos), realize(e)
    _TEXT[0] = nwchem_text(["# c"], 2, 0, "plain", elements=ELS[e], comments=False, noise=(NOISE[kind], pos))
    return P.parse_nwchem("x")


def _gbs_noise(kind, pos, e):
    kind, pos, e = realize(kind), realize(pos), realize(e)
    _TEXT[0] = gbs_text(["! c"], 2, 0, "D", elements=ELS[e], noise=(NOISE[kind], pos))
    return P.parse_gbs("x")


def nwchem_noise(kind: int, pos: int, e: int) -> bool:
    """
    a blank or a comment line after primitive row `pos` inside every shell that has a further row

    pre: 0 <= kind < 2 and 0 <= pos < 3 and 0 <= e < 4
    post: _
    """
    return same_parse(_nw_noise(kind, pos, e), expected_nwchem(ELS[e]))


def nwchem_noise_twin(kind: int, pos: int, e: int) -> bool:
    """
    pre: 0 <= kind < 2 and 0 <= pos < 3 and 0 <= e < 4
    post: _
    """
    return same_parse(_nw_noise(kind, pos, e), expected_nwchem(ELS[(e + 1) % 4]))


def gbs_noise(kind: int, pos: int, e: int) -> bool:
    """
    pre: 0 <= kind < 2 and 0 <= pos < 3 and 0 <= e < 4
    post: _
    """
    return same_parse(_gbs_noise(kind, pos, e), expected_gbs(ELS[e]))


def gbs_noise_twin(kind: int, pos: int, e: int) -> bool:
    """
    pre: 0 <= kind < 2 and 0 <= pos < 3 and 0 <= e < 4
    post: _
    """
    return same_parse(_gbs_noise(kind, pos, e), expected_gbs(ELS[(e + 1) % 4]))
